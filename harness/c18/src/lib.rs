//! C18 — parse errors tell the truth about the input.
use common::refs::*;
use common::{forget, vcover, Src};
use rtcp_types::prelude::*;
use rtcp_types::RtcpParseError as E;
use rtcp_types::*;

/// What every rejection must satisfy, given the raw input `d`, the parser's minimum size and
/// (for typed parsers) its packet type.
fn truthful(e: &E, d: &[u8], min: usize, pt: Option<u8>) {
    let len = d.len();
    match *e {
        E::UnsupportedVersion(v) => {
            assert!(len >= 1 && v == d[0] >> 6 && v != 2);
        }
        E::PacketTypeMismatch { actual, requested } => {
            assert!(len >= 2 && actual == d[1]);
            assert!(pt == Some(requested) && actual != requested);
        }
        E::Truncated { expected, actual } => assert!(expected > actual),
        E::TooLarge { expected, actual } => assert!(expected < actual),
        _ => {}
    }
    // shorter than the minimum: exactly Truncated{min, len}
    if len < min {
        assert!(*e == E::Truncated { expected: min, actual: len });
    } else if len >= 4 {
        let h = Hdr::read(d);
        // version 2, right type, length field disagrees: exactly that header length and the real one
        if h.version == 2 && pt.map_or(true, |p| p == h.pt) && h.bytes() != len {
            if h.bytes() > len {
                assert!(*e == E::Truncated { expected: h.bytes(), actual: len });
            } else {
                assert!(*e == E::TooLarge { expected: h.bytes(), actual: len });
            }
        }
    }
}

macro_rules! typed {
    ($fname:ident, $ty:ty, $min:expr, $pt:expr) => {
        pub fn $fname<S: Src, const N: usize>(s: &mut S) {
            let data: [u8; N] = s.bytes();
            let len = s.upto(N);
            let d = &data[..len];
            match <$ty>::parse(d) {
                Ok(p) => forget(p),
                Err(e) => {
                    truthful(&e, d, $min, $pt);
                    vcover!(matches!(e, E::TooLarge { .. }), "too large");
                    vcover!(matches!(e, E::Truncated { .. }) && len >= $min, "truncated by its length field or body");
                    vcover!(matches!(e, E::UnsupportedVersion(_)), "bad version");
                }
            }
        }
    };
}

typed!(app, App, 12, Some(PT_APP));
typed!(bye, Bye, 4, Some(PT_BYE));
typed!(rr, ReceiverReport, 8, Some(PT_RR));
typed!(sr, SenderReport, 28, Some(PT_SR));
typed!(tfb, TransportFeedback, 12, Some(PT_RTPFB));
typed!(pfb, PayloadFeedback, 12, Some(PT_PSFB));
typed!(sdes, Sdes, 4, Some(PT_SDES));
typed!(unknown, Unknown, 4, None);

/// Generic parser: the error is the dispatched parser's; minimum size is that parser's
/// when the type byte is readable, 4 otherwise.
pub fn generic<S: Src, const N: usize, const SDES: bool>(s: &mut S) {
    let data: [u8; N] = s.bytes();
    let len = s.upto(N);
    let d = &data[..len];
    if len >= 2 {
        s.assume((d[1] == PT_SDES) == SDES);
    }
    match Packet::parse(d) {
        Ok(p) => forget(p),
        Err(e) => {
            if len < 4 {
                assert!(e == E::Truncated { expected: 4, actual: len });
            } else {
                let (min, pt) = match d[1] {
                    PT_SR => (28, Some(PT_SR)),
                    PT_RR => (8, Some(PT_RR)),
                    PT_SDES => (4, Some(PT_SDES)),
                    PT_BYE => (4, Some(PT_BYE)),
                    PT_APP => (12, Some(PT_APP)),
                    PT_RTPFB => (12, Some(PT_RTPFB)),
                    PT_PSFB => (12, Some(PT_PSFB)),
                    _ => (4, None),
                };
                truthful(&e, d, min, pt);
            }
            vcover!(len >= 4, "rejected with a readable header");
        }
    }
}

pub fn report_block<S: Src>(s: &mut S) {
    let data: [u8; 40] = s.bytes();
    let len = s.upto(40);
    let d = &data[..len];
    match ReportBlock::parse(d) {
        Ok(_) => assert!(len == 24),
        Err(e) => {
            if len < 24 {
                assert!(e == E::Truncated { expected: 24, actual: len });
            } else {
                assert!(e == E::TooLarge { expected: 24, actual: len });
            }
            vcover!(len > 24, "too large");
        }
    }
}

/// Compound: an empty input is Truncated{4, 0}; every other rejection is a truncation with
/// expected > actual == len.
pub fn compound<S: Src, const N: usize>(s: &mut S) {
    let data: [u8; N] = s.bytes();
    let len = s.upto(N);
    let d = &data[..len];
    match Compound::parse(d) {
        Ok(c) => forget(c),
        Err(e) => {
            match e {
                E::Truncated { expected, actual } => assert!(expected > actual && actual == len),
                _ => panic!("compound parsing rejects with something other than Truncated"),
            }
            if len < 4 {
                assert!(e == E::Truncated { expected: 4, actual: len });
            }
            vcover!(len > 8, "chain breaks in a later tile");
        }
    }
}

/// FCI parsers and SDES units: their input has no RTCP header, so only the clauses about the
/// error's own fields apply (truncated: expected > actual, too large: expected < actual).
pub fn fci<S: Src>(s: &mut S) {
    let data: [u8; 16] = s.bytes();
    let len = s.upto(16);
    let d = &data[..len];
    if let Err(e) = <Fir as FciParser>::parse(d) {
        sdes_unit_error(&e);
        assert!(len < 8);
    }
    if let Err(e) = <Sli as FciParser>::parse(d) {
        sdes_unit_error(&e);
        assert!(len < 4);
    }
    if let Err(e) = <Rpsi as FciParser>::parse(d) {
        sdes_unit_error(&e);
    }
    if let Err(e) = <Pli as FciParser>::parse(d) {
        assert!(e == E::TooLarge { expected: 0, actual: len });
    }
    vcover!(len >= 4 && <Rpsi as FciParser>::parse(d).is_err(), "RPSI rejected for its padding count");
}

fn sdes_unit_error(e: &E) {
    match *e {
        E::Truncated { expected, actual } => assert!(expected > actual),
        E::TooLarge { expected, actual } => assert!(expected < actual),
        _ => {}
    }
}

pub fn sdes_item<S: Src>(s: &mut S) {
    let data: [u8; 300] = s.bytes();
    let len = s.upto(300);
    if let Err(e) = verif::sdes::item_parse(&data[..len]) {
        sdes_unit_error(&e);
        vcover!(matches!(e, E::SdesPrivPrefixTooLarge { .. }), "PRIV prefix too large");
    }
}

pub fn sdes_chunk<S: Src, const N: usize>(s: &mut S) {
    let data: [u8; N] = s.bytes();
    let len = s.upto(N);
    match verif::sdes::chunk_parse(&data[..len]) {
        Ok(c) => forget(c),
        Err(e) => {
            sdes_unit_error(&e);
            vcover!(len >= 8, "rejected chunk");
        }
    }
}

common::register! {
    q_app = app::<_, 300> => 2,
    q_bye = bye::<_, 300> => 2,
    q_rr = rr::<_, 300> => 2,
    q_sr = sr::<_, 300> => 2,
    q_tfb = tfb::<_, 300> => 2,
    q_pfb = pfb::<_, 300> => 2,
    q_sdes = sdes::<_, 16> => 2,
    q_unknown = unknown::<_, 300> => 2,
    q_generic = generic::<_, 64, false> => 2,
    q_generic_sdes = generic::<_, 12, true> => 2,
    q_report_block = report_block => 2,
    q_compound = compound::<_, 32> => 10,
    q_fci = fci => 2,
    q_sdes_item = sdes_item => 2,
    q_sdes_chunk = sdes_chunk::<_, 16> => 2,
    t_app = app::<_, 1100> => 2,
    t_bye = bye::<_, 1100> => 2,
    t_rr = rr::<_, 1100> => 2,
    t_sr = sr::<_, 1100> => 2,
    t_tfb = tfb::<_, 1100> => 2,
    t_pfb = pfb::<_, 1100> => 2,
    t_sdes = sdes::<_, 24> => 2,
    t_unknown = unknown::<_, 1100> => 2,
    t_generic = generic::<_, 256, false> => 2,
    t_generic_sdes = generic::<_, 16, true> => 2,
    t_compound = compound::<_, 128> => 34,
    t_sdes_chunk = sdes_chunk::<_, 32> => 2,
}

#[cfg(not(kani))]
pub const REGISTRIES: &[&[(&str, fn(&mut common::R))]] = &[REGISTRY];
