#[cfg(not(kani))]
fn main() {
    common::replay_main_multi(c18::REGISTRIES)
}
#[cfg(kani)]
fn main() {}
