//! C19 — third-party packet types built on the public helpers interoperate.
//!
//! A family of packet types `Custom<PT, MIN>` defined *here*, outside the crate, with only the
//! public helpers (`utils::parser::*`, `utils::writer::*`), instantiated for several type
//! numbers and minimum lengths, plus raw packets from `UnknownBuilder`.
use common::cfg::*;
use common::refs::*;
use common::{forget, vcover, Src};
use rtcp_types::prelude::*;
use rtcp_types::utils::{parser, writer};
use rtcp_types::*;

/// A third-party packet: header, SSRC (if MIN >= 8), payload words up to MIN, nothing else.
#[derive(Clone, Debug)]
pub struct Custom<'a, const PT: u8, const MIN: usize> {
    data: &'a [u8],
}

impl<'a, const PT: u8, const MIN: usize> RtcpPacket for Custom<'a, PT, MIN> {
    const MIN_PACKET_LEN: usize = MIN;
    const PACKET_TYPE: u8 = PT;
}

impl<'a, const PT: u8, const MIN: usize> RtcpPacketParser<'a> for Custom<'a, PT, MIN> {
    fn parse(data: &'a [u8]) -> Result<Self, RtcpParseError> {
        parser::check_packet::<Self>(data)?;
        Ok(Self { data })
    }
    fn header_data(&self) -> [u8; 4] {
        self.data[..4].try_into().unwrap()
    }
}

impl<'a, const PT: u8, const MIN: usize> Custom<'a, PT, MIN> {
    pub fn padding(&self) -> Option<u8> {
        parser::parse_padding(self.data)
    }
    pub fn ssrc(&self) -> u32 {
        parser::parse_ssrc(self.data)
    }
    pub fn payload(&self) -> &[u8] {
        &self.data[if MIN >= 8 { 8 } else { 4 }..MIN]
    }
}

impl<'a, const PT: u8, const MIN: usize> TryFrom<&'a Unknown<'a>> for Custom<'a, PT, MIN> {
    type Error = RtcpParseError;
    fn try_from(u: &'a Unknown<'a>) -> Result<Self, Self::Error> {
        Custom::parse(u.data())
    }
}

impl<'a, const PT: u8, const MIN: usize> TryFrom<&'a Packet<'a>> for Custom<'a, PT, MIN> {
    type Error = RtcpParseError;
    fn try_from(p: &'a Packet<'a>) -> Result<Self, Self::Error> {
        match p {
            Packet::Unknown(u) => Self::try_from(u),
            _ => Err(RtcpParseError::PacketTypeMismatch { actual: p.type_(), requested: PT }),
        }
    }
}

#[derive(Debug, Clone, Copy)]
pub struct CustomBuilder<const PT: u8, const MIN: usize> {
    pub ssrc: u32,
    pub count: u8,
    pub padding: u8,
    pub fill: u8,
}

impl<const PT: u8, const MIN: usize> RtcpPacketWriter for CustomBuilder<PT, MIN> {
    fn calculate_size(&self) -> Result<usize, RtcpWriteError> {
        writer::check_padding(self.padding)?;
        Ok(MIN + self.padding as usize)
    }
    fn write_into_unchecked(&self, buf: &mut [u8]) -> usize {
        writer::write_header_unchecked::<Custom<PT, MIN>>(self.padding, self.count, buf);
        let mut end = 4;
        if MIN >= 8 {
            buf[4..8].copy_from_slice(&self.ssrc.to_be_bytes());
            end = 8;
        }
        buf[end..MIN].fill(self.fill);
        end = MIN;
        end += writer::write_padding_unchecked(self.padding, &mut buf[end..]);
        end
    }
    fn get_padding(&self) -> Option<u8> {
        if self.padding == 0 {
            None
        } else {
            Some(self.padding)
        }
    }
}

// ------------------------------------------------------------------ helper contracts

/// `write_header_unchecked`: V=2, P iff padding > 0, count, PT, length = len/4 - 1, for
/// every buffer length that is a multiple of 4 in 4..=4*WORDS (WORDS = 65536: every value of
/// the 16-bit length field).
pub fn header_helper<S: Src, const PT: u8, const WORDS: usize, const BYTES: usize>(s: &mut S) {
    let words = s.range(1, WORDS);
    let padding = s.u8();
    let count = s.u8();
    s.assume(count <= 31);
    let mut hbuf = [0xA5u8; BYTES];
    let buf: &mut [u8] = &mut hbuf;
    let n = writer::write_header_unchecked::<Custom<PT, 4>>(padding, count, &mut buf[..4 * words]);
    assert!(n == 4);
    let i = s.upto(3);
    assert!(buf[i] == hdr_byte(i, padding, count, PT, 4 * words));
    // and the reading helpers invert it
    assert!(parser::parse_version(buf) == 2 && parser::parse_count(buf) == count);
    assert!(parser::parse_packet_type(buf) == PT && parser::parse_length(buf) == 4 * words);
    assert!(parser::parse_padding_bit(buf) == (padding > 0));
    assert!(buf[4] == 0xA5, "header writer touched the body");
    vcover!(words == WORDS, "largest buffer");
    vcover!(words == 257, "length field above 255");
}

/// `write_padding_unchecked`: `padding` bytes = zeros ending in the count, nothing beyond.
pub fn padding_helper<S: Src>(s: &mut S) {
    let padding = s.u8();
    let mut buf: [u8; 260] = [0xA5; 260];
    let n = writer::write_padding_unchecked(padding, &mut buf);
    let i = s.upto(259);
    assert!(n == padding as usize);
    if i < n {
        assert!(buf[i] == pad_byte(i, padding));
    } else {
        assert!(buf[i] == 0xA5, "padding writer touched bytes beyond the padding");
    }
    assert!(writer::check_padding(padding).is_ok() == (padding % 4 == 0));
    vcover!(padding == 255, "largest padding");
}

/// `check_packet::<P>` accepts precisely the well-framed strings of the declared type and
/// minimum size.  Three-valued: a padding count that is not a multiple of 4 or exceeds the
/// room after the minimum size is neither demanded nor forbidden.
pub fn check_helper<S: Src, const PT: u8, const MIN: usize, const N: usize>(s: &mut S) {
    let data: [u8; N] = s.bytes();
    let len = s.upto(N);
    let d = &data[..len];
    let r = parser::check_packet::<Custom<PT, MIN>>(d);
    let framed = len >= MIN && len >= 4 && {
        let h = Hdr::read(d);
        h.version == 2 && h.pt == PT && h.bytes() == len
    };
    let pad_bit = framed && d[0] & 0x20 != 0;
    let pad = if pad_bit { d[len - 1] as usize } else { 0 };
    let must_reject = !framed || (pad_bit && pad == 0);
    let must_accept = framed && (!pad_bit || (pad > 0 && pad % 4 == 0 && pad <= len - MIN));
    if must_reject {
        assert!(r.is_err(), "check_packet accepted an ill-framed string");
    }
    if must_accept {
        assert!(r.is_ok(), "check_packet rejected a well-framed string");
    }
    vcover!(must_accept && pad_bit, "padded well-framed string accepted");
    vcover!(must_reject && len >= MIN, "ill-framed string rejected");
}

// ------------------------------------------------------------------ third-party type end to end

/// Written by the third-party builder -> generic parser says Unknown with the exact bytes ->
/// converts back to the third-party type with every field intact.
pub fn custom_roundtrip<S: Src, const PT: u8, const MIN: usize>(s: &mut S) {
    let b = CustomBuilder::<PT, MIN> { ssrc: s.u32(), count: s.u8(), padding: s.u8(), fill: s.u8() };
    s.assume(b.count <= 31 && b.padding <= 12);
    let i = s.upto(MIN + 15);
    let mut buf = [0xA5u8; 64];
    match b.write_into(&mut buf) {
        Ok(n) => {
            assert!(n == MIN + b.padding as usize);
            // header and trailer written by the helpers
            if i < 4 {
                assert!(buf[i] == hdr_byte(i, b.padding, b.count, PT, n));
            } else if i >= MIN && i < n {
                assert!(buf[i] == pad_byte(i - MIN, b.padding));
            }
            let p = Packet::parse(&buf[..n]).expect("generic parser rejects the third-party packet");
            match &p {
                Packet::Unknown(u) => {
                    assert!(u.data().as_ptr() == buf.as_ptr() && u.data().len() == n);
                    let c = u.try_as::<Custom<PT, MIN>>().expect("conversion back failed");
                    assert!(c.count() == b.count && c.type_() == PT && c.length() == n);
                    assert!(c.padding() == b.get_padding());
                    if MIN >= 8 {
                        assert!(c.ssrc() == b.ssrc);
                    }
                    assert!(c.payload().len() == MIN - if MIN >= 8 { 8 } else { 4 });
                    if i < c.payload().len() {
                        assert!(c.payload()[i] == b.fill);
                    }
                }
                _ => panic!("third-party type parsed as a known variant"),
            }
            let c2 = p.try_as::<Custom<PT, MIN>>().expect("conversion from the generic packet failed");
            assert!(c2.count() == b.count);
            vcover!(b.padding > 0, "padded third-party packet");
            forget(p);
        }
        Err(_) => assert!(b.padding % 4 != 0),
    }
}

/// Raw packets from `UnknownBuilder`: reference image, generic parser, conversion.
pub fn unknown_builder<S: Src, const PT: u8>(s: &mut S) {
    let data = Blob::<16>::draw(s, 16);
    let mut c = UnknownCfg::draw_with(s, data);
    c.type_ = PT;
    s.assume(c.padding <= 12);
    let i = s.upto(35);
    let mut buf = [0xA5u8; 40];
    match c.builder().write_into(&mut buf) {
        Ok(n) => {
            assert!(c.valid(), "UnknownBuilder accepted an unrepresentable packet");
            assert!(n == c.size());
            if i < n {
                assert!(buf[i] == c.byte(i), "raw packet differs from the RFC image");
            }
            match Packet::parse(&buf[..n]).expect("generic parser rejects the raw packet") {
                Packet::Unknown(u) => {
                    assert!(u.data().as_ptr() == buf.as_ptr() && u.data().len() == n);
                    assert!(u.count() == c.count && u.type_() == PT);
                    // converts to a third-party type of that number whose minimum fits
                    let r = u.try_as::<Custom<PT, 4>>();
                    assert!(r.is_ok(), "conversion of a raw packet to its third-party type failed");
                    vcover!(c.padding > 0 && c.data.len > 0, "padded raw packet");
                }
                _ => panic!("raw packet of a foreign type parsed as a known variant"),
            }
        }
        Err(_) => assert!(!c.valid(), "UnknownBuilder rejected a representable packet"),
    }
}

/// Third-party packets embed in compounds and come back out.
pub fn in_compound<S: Src, const PT: u8, const MIN: usize>(s: &mut S) {
    let b = CustomBuilder::<PT, MIN> { ssrc: s.u32(), count: s.u8(), padding: s.u8(), fill: s.u8() };
    s.assume(b.count <= 31 && b.padding <= 8);
    let rr = RrCfg::<0>::draw(s);
    s.assume(rr.padding == 0);
    let data = Blob::<8>::draw(s, 8);
    let mut u = UnknownCfg::draw_with(s, data);
    u.type_ = PT;
    s.assume(u.padding == 0 && u.valid());
    let cb = Compound::builder().add_packet(rr.builder()).add_packet(u.builder()).add_packet(b);
    let mut buf = [0u8; 96];
    match cb.write_into(&mut buf) {
        Ok(n) => {
            assert!(n == 8 + u.size() + MIN + b.padding as usize);
            let mut it = Compound::parse(&buf[..n]).expect("own compound parser rejects the compound");
            assert!(matches!(it.next(), Some(Ok(Packet::Rr(_)))));
            match it.next() {
                Some(Ok(Packet::Unknown(x))) => assert!(x.data().len() == u.size() && x.count() == u.count),
                _ => panic!("raw member lost"),
            }
            match it.next() {
                Some(Ok(p)) => {
                    let c = p.try_as::<Custom<PT, MIN>>().expect("third-party member does not convert back");
                    assert!(c.count() == b.count && c.padding() == b.get_padding());
                    if MIN >= 8 {
                        assert!(c.ssrc() == b.ssrc);
                    }
                    forget(p);
                }
                _ => panic!("third-party member lost"),
            }
            assert!(it.next().is_none());
            vcover!(b.padding > 0, "padded third-party member last");
        }
        Err(_) => assert!(b.padding % 4 != 0),
    }
    forget(cb);
}

common::register! {
    q_header_0 = header_helper::<_, 0, 65536, 262144> => 2,
    q_header_242 = header_helper::<_, 242, 2048, 8192> => 2,
    q_padding = padding_helper => 2,
    q_check_192_4 = check_helper::<_, 192, 4, 300> => 2,
    q_check_242_12 = check_helper::<_, 242, 12, 300> => 2,
    q_check_255_28 = check_helper::<_, 255, 28, 300> => 2,
    q_custom_242_12 = custom_roundtrip::<_, 242, 12> => 2,
    q_custom_0_4 = custom_roundtrip::<_, 0, 4> => 2,
    q_custom_255_28 = custom_roundtrip::<_, 255, 28> => 2,
    q_unknown_builder_242 = unknown_builder::<_, 242> => 2,
    q_unknown_builder_0 = unknown_builder::<_, 0> => 2,
    q_in_compound = in_compound::<_, 242, 12> => 4,
    t_header_192 = header_helper::<_, 192, 65536, 262144> => 2,
    t_header_255 = header_helper::<_, 255, 2048, 8192> => 2,
    t_check_0_8 = check_helper::<_, 0, 8, 1100> => 2,
    t_check_242_12 = check_helper::<_, 242, 12, 1100> => 2,
    t_custom_192_8 = custom_roundtrip::<_, 192, 8> => 2,
    t_unknown_builder_199 = unknown_builder::<_, 199> => 2,
    t_in_compound_255_28 = in_compound::<_, 255, 28> => 4,
}

#[cfg(not(kani))]
pub const REGISTRIES: &[&[(&str, fn(&mut common::R))]] = &[REGISTRY];
