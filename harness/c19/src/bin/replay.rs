#[cfg(not(kani))]
fn main() {
    common::replay_main_multi(c19::REGISTRIES)
}
#[cfg(kani)]
fn main() {}
