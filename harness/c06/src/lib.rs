//! C06 — the size a writer announces is exactly the size it writes.
//!
//! Size-only harnesses: text/payload lengths are symbolic over their full ranges, contents are
//! constant; the buffer length is symbolic in 0..=B where B exceeds the largest size of the
//! instance; nothing is read back (that is C07/C17).
use common::cfg::*;
use common::{vcover, Src};
use rtcp_types::prelude::*;
use rtcp_types::*;

/// The C06 oracle for one writer and one symbolic buffer length.  `can_accept` is false for
/// instances that are rejected by construction (32 list elements, FCI in the wrong kind).
fn announce_vs_write<S: Src, const B: usize>(
    s: &mut S,
    size: Result<usize, RtcpWriteError>,
    write: impl FnOnce(&mut [u8]) -> Result<usize, RtcpWriteError>,
    whole_packet: bool,
    can_accept: bool,
) {
    let buflen = s.upto(B);
    let mut buf = [0u8; B];
    let r = write(&mut buf[..buflen]);
    let okn = size.as_ref().ok().copied();
    match size {
        Ok(n) => {
            // harness sanity: the instance's buffer must be able to hold the packet
            assert!(n + 4 <= B, "HARNESS: buffer array too small for this instance");
            if whole_packet {
                assert!(n % 4 == 0);
            }
            if buflen >= n {
                assert!(r == Ok(n));
            } else {
                assert!(r == Err(RtcpWriteError::OutputTooSmall(n)));
            }
        }
        Err(e) => {
            assert!(r == Err(e));
        }
    }
    vcover!(!can_accept || matches!(okn, Some(n) if buflen > n), "written with slack");
    vcover!(!can_accept || matches!(okn, Some(n) if buflen < n || n == 0), "buffer too small");
    vcover!(can_accept || okn.is_none(), "verdict reached");
}

fn packet<S: Src, W: RtcpPacketWriter, const B: usize>(s: &mut S, w: &W) {
    announce_vs_write::<S, B>(s, w.calculate_size(), |b| w.write_into(b), true, true);
}

fn packet_rejected<S: Src, W: RtcpPacketWriter, const B: usize>(s: &mut S, w: &W) {
    announce_vs_write::<S, B>(s, w.calculate_size(), |b| w.write_into(b), true, false);
}

fn packet_if<S: Src, W: RtcpPacketWriter, const B: usize>(s: &mut S, w: &W, can_accept: bool) {
    if can_accept {
        packet::<S, W, B>(s, w)
    } else {
        packet_rejected::<S, W, B>(s, w)
    }
}

/// As `packet_if`, consuming the builder without running its drop glue.
fn packet_own<S: Src, W: RtcpPacketWriter, const B: usize>(s: &mut S, w: W, can_accept: bool) {
    packet_if::<S, W, B>(s, &w, can_accept);
    common::forget(w);
}

// ------------------------------------------------------------------ SR / RR / BYE / APP / Unknown

pub fn sr<S: Src, const NB: usize, const B: usize>(s: &mut S) {
    let c = SrCfg::<NB>::draw(s);
    packet_own::<S, _, B>(s, c.builder(), NB <= 31);
}

pub fn rr<S: Src, const NB: usize, const B: usize>(s: &mut S) {
    let c = RrCfg::<NB>::draw(s);
    packet_own::<S, _, B>(s, c.builder(), NB <= 31);
}

pub fn bye<S: Src, const NS: usize, const B: usize>(s: &mut S) {
    let reason = Text::<260>::draw_len_utf8(s, 260);
    let c = ByeCfg::<NS, 260>::draw_with(s, reason);
    packet_own::<S, _, B>(s, c.builder(), NS <= 31);
}

/// Text of concrete length `LEN` whose first `K` characters are two-byte characters (U+00E9).
fn text_const<const LEN: usize, const K: usize>() -> Text<12> {
    let mut bytes = [b'a'; 12];
    let mut i = 0;
    while i < 2 * K {
        bytes[i] = if i % 2 == 0 { 0xc3 } else { 0xa9 };
        i += 1;
    }
    Text { len: LEN, bytes }
}

/// Short *concrete* multi-byte reason (byte length != character count): with everything about
/// the text constant, a size computed by walking the text is decided by constant propagation
/// (the symbolic-length instances cannot afford `str` iteration).
pub fn bye_const_utf8<S: Src, const LEN: usize, const K: usize>(s: &mut S) {
    let c = ByeCfg::<1, 12>::draw_with(s, text_const::<LEN, K>());
    packet_own::<S, _, 304>(s, c.builder(), true);
}

/// Same for an SDES item value (PRIV and not).
pub fn sdes_const_utf8<S: Src, const LEN: usize, const K: usize>(s: &mut S) {
    let type_ = s.u8();
    let it = ItemCfg { type_, value: text_const::<LEN, K>(), prefix: Blob { len: 3, bytes: [0x5a; 12] } };
    let ssrc = s.u32();
    let padding = s.u8();
    s.assume(type_ != 0);
    let b = Sdes::builder().padding(padding).add_chunk(SdesChunk::builder(ssrc).add_item(it.builder()));
    packet_own::<S, _, 304>(s, b, true);
}

pub fn app<S: Src>(s: &mut S) {
    let data = Blob::<72>::draw_len(s, 72);
    let c = AppCfg::draw_with(s, data);
    packet::<S, _, 344>(s, &c.builder());
}

pub fn unknown<S: Src>(s: &mut S) {
    let data = Blob::<72>::draw_len(s, 72);
    let c = UnknownCfg::draw_with(s, data);
    let b = c.builder();
    // payloads that are not word aligned cannot be represented (C16); C06 speaks about the
    // configurations the size calculation accepts
    packet::<S, _, 344>(s, &b);
}

// ------------------------------------------------------------------ SDES

fn draw_item<S: Src>(s: &mut S) -> ItemCfg<260> {
    let type_ = s.u8();
    let value = Text::<260>::draw_len(s, 260);
    let prefix = Blob::<260>::draw_len(s, 260);
    ItemCfg { type_, value, prefix }
}

fn draw_chunk<S: Src, const NI: usize>(s: &mut S) -> ChunkCfg<NI, 260> {
    let ssrc = s.u32();
    let z = ItemCfg { type_: 1, value: Text { len: 0, bytes: [0; 260] }, prefix: Blob { len: 0, bytes: [0; 260] } };
    let mut items = [z; NI];
    let mut i = 0;
    while i < NI {
        items[i] = draw_item(s);
        i += 1;
    }
    ChunkCfg { ssrc, n: NI, items }
}

pub fn sdes_item<S: Src>(s: &mut S) {
    let mut it = draw_item(s);
    // multi-byte characters: byte length and character count differ
    it.value = Text::<260>::draw_len_utf8(s, 260);
    let b = it.builder();
    // SdesItemBuilder has its own public write_into; its size is not public: the announced
    // size is the one carried by OutputTooSmall / returned on success
    let buflen = s.upto(560);
    let mut buf = [0u8; 560];
    let r = b.write_into(&mut buf[..buflen]);
    let mut big = [0u8; 560];
    let full = b.write_into(&mut big);
    match full {
        Ok(n) => {
            assert!(n <= 257 + 3);
            if buflen >= n {
                assert!(r == Ok(n));
            } else {
                assert!(r == Err(RtcpWriteError::OutputTooSmall(n)));
            }
            vcover!(buflen < n, "buffer too small");
            vcover!(it.type_ == PRIV, "PRIV item written");
        }
        Err(e) => {
            assert!(r == Err(e));
        }
    }
}

pub fn sdes_chunk<S: Src, const NI: usize, const B: usize>(s: &mut S) {
    let c = draw_chunk::<S, NI>(s);
    let b = c.builder();
    let buflen = s.upto(B);
    let mut buf = [0u8; B];
    let r = b.write_into(&mut buf[..buflen]);
    let mut big = [0u8; B];
    let full = b.write_into(&mut big);
    match full {
        Ok(n) => {
            assert!(n % 4 == 0 && n + 4 <= B);
            if buflen >= n {
                assert!(r == Ok(n));
            } else {
                assert!(r == Err(RtcpWriteError::OutputTooSmall(n)));
            }
            vcover!(buflen < n, "buffer too small");
            vcover!(buflen > n, "written with slack");
        }
        Err(e) => {
            assert!(r == Err(e));
        }
    }
    vcover!(true, "verdict reached");
}

pub fn sdes<S: Src, const NC: usize, const NI: usize, const B: usize>(s: &mut S) {
    let padding = s.u8();
    let z = ChunkCfg { ssrc: 0, n: 0, items: [ItemCfg { type_: 1, value: Text { len: 0, bytes: [0; 260] }, prefix: Blob { len: 0, bytes: [0; 260] } }; NI] };
    let mut chunks = [z; NC];
    let mut i = 0;
    while i < NC {
        chunks[i] = draw_chunk::<S, NI>(s);
        i += 1;
    }
    let c = SdesCfg { padding, chunks };
    packet_own::<S, _, B>(s, c.builder(), NC <= 31);
}

// ------------------------------------------------------------------ feedback x FCI

fn fb<'a, S: Src, const B: usize>(s: &mut S, fci: &'a dyn FciBuilder<'a>, transport: bool, ok: bool) {
    let c = FbCfg::draw(s, transport);
    if transport {
        let b = TransportFeedback::builder(fci)
            .sender_ssrc(c.sender)
            .media_ssrc(c.media)
            .padding(c.padding);
        packet_if::<S, _, B>(s, &b, ok);
    } else {
        let b = PayloadFeedback::builder(fci)
            .sender_ssrc(c.sender)
            .media_ssrc(c.media)
            .padding(c.padding);
        packet_if::<S, _, B>(s, &b, ok);
    }
}

fn fb_owned<S: Src, const B: usize>(s: &mut S, fci: impl FciBuilder<'static> + 'static, transport: bool, ok: bool) {
    let c = FbCfg::draw(s, transport);
    if transport {
        let b = TransportFeedback::builder_owned(fci)
            .sender_ssrc(c.sender)
            .media_ssrc(c.media)
            .padding(c.padding);
        packet_if::<S, _, B>(s, &b, ok);
        common::forget(b);
    } else {
        let b = PayloadFeedback::builder_owned(fci)
            .sender_ssrc(c.sender)
            .media_ssrc(c.media)
            .padding(c.padding);
        packet_if::<S, _, B>(s, &b, ok);
        common::forget(b);
    }
}

pub fn fb_pli<S: Src, const T: bool>(s: &mut S) {
    let f = Pli::builder();
    fb::<S, 280>(s, &f, T, !T);
}

pub fn fb_sli<S: Src, const T: bool, const N: usize>(s: &mut S) {
    let c = SliCfg::<N>::draw(s);
    let f = c.builder();
    fb::<S, 288>(s, &f, T, !T);
    common::forget(f);
}

pub fn fb_rpsi<S: Src, const T: bool>(s: &mut S) {
    let bits = Blob::<72>::draw_len(s, 72);
    let c = RpsiCfg::draw_with(s, bits);
    let f = c.builder();
    fb::<S, 352>(s, &f, T, !T);
}

pub fn fb_rpsi_owned<S: Src>(s: &mut S) {
    let bits = Blob::<12>::draw_len(s, 12);
    let c = RpsiCfg::draw_with(s, bits);
    let f = Rpsi::builder().payload_type(c.payload_type).native_data_owned(c.bits.as_bytes(), c.overrun);
    fb_owned::<S, 292>(s, f, false, true);
}

/// NACK with `N` symbolic sequence numbers through the real `NackBuilder` (BTreeSet).
pub fn fb_nack<S: Src, const T: bool, const N: usize>(s: &mut S) {
    let mut f = Nack::builder();
    let mut i = 0;
    while i < N {
        f = f.add_rtp_sequence(s.u16());
        i += 1;
    }
    fb::<S, 288>(s, &f, T, T);
    common::forget(f);
}

/// NACK with a concrete set that spans several words and the 16/17 boundary.
pub fn fb_nack_fixed<S: Src, const OWNED: bool>(s: &mut S) {
    let f = Nack::builder()
        .add_rtp_sequence(17)
        .add_rtp_sequence(0)
        .add_rtp_sequence(16)
        .add_rtp_sequence(0);
    if OWNED {
        fb_owned::<S, 288>(s, f, true, true);
    } else {
        fb::<S, 288>(s, &f, true, true);
        common::forget(f);
    }
}

/// FIR with one symbolic entry and with a fixed three-entry map.
pub fn fb_fir<S: Src, const T: bool, const FIXED: bool>(s: &mut S) {
    let f = if FIXED {
        Fir::builder().add_ssrc(1, 1).add_ssrc(0xffff_fffe, 2).add_ssrc(1, 9).add_ssrc(77, 3)
    } else {
        Fir::builder().add_ssrc(s.u32(), s.u8())
    };
    fb::<S, 296>(s, &f, T, !T);
    common::forget(f);
}

// ------------------------------------------------------------------ PacketBuilder and compounds

pub fn wrapped<S: Src, const WHICH: usize>(s: &mut S) {
    let reason = Text::<12>::draw_len(s, 12);
    let bye = ByeCfg::<1, 12>::draw_with(s, reason);
    let data = Blob::<12>::draw_len(s, 12);
    let app = AppCfg::draw_with(s, data);
    let unk = UnknownCfg::draw_with(s, data);
    let sr = SrCfg::<1>::draw(s);
    let rr = RrCfg::<1>::draw(s);
    let pb: PacketBuilder = match WHICH {
        0 => bye.builder().into(),
        1 => app.builder().into(),
        2 => unk.builder().into(),
        3 => sr.builder().into(),
        4 => rr.builder().into(),
        _ => Sdes::builder().padding(bye.padding).add_chunk(SdesChunk::builder(sr.ssrc)).into(),
    };
    packet::<S, _, 320>(s, &pb);
    common::forget(pb);
}

pub fn wrapped_fb<S: Src>(s: &mut S) {
    let t = s.bool();
    let sli = SliCfg::<1>::draw(s).builder();
    let c = FbCfg::draw(s, t);
    let pb: PacketBuilder = if t {
        TransportFeedback::builder(&sli).sender_ssrc(c.sender).media_ssrc(c.media).padding(c.padding).into()
    } else {
        PayloadFeedback::builder(&sli).sender_ssrc(c.sender).media_ssrc(c.media).padding(c.padding).into()
    };
    packet::<S, _, 288>(s, &pb);
    common::forget(pb);
}

/// A writer defined outside the crate (third-party member of a compound).
#[derive(Debug)]
pub struct Foreign {
    pub words: usize,
    pub padding: u8,
    pub fail: bool,
}

impl RtcpPacketWriter for Foreign {
    fn calculate_size(&self) -> Result<usize, RtcpWriteError> {
        if self.fail {
            return Err(RtcpWriteError::MissingFci);
        }
        rtcp_types::utils::writer::check_padding(self.padding)?;
        Ok(4 + 4 * self.words + self.padding as usize)
    }
    fn write_into_unchecked(&self, buf: &mut [u8]) -> usize {
        let n = 4 + 4 * self.words + self.padding as usize;
        buf[0] = 0x80 | if self.padding > 0 { 0x20 } else { 0 };
        buf[1] = 199;
        buf[2] = ((n / 4 - 1) >> 8) as u8;
        buf[3] = (n / 4 - 1) as u8;
        buf[4..n].fill(0);
        if self.padding > 0 {
            buf[n - 1] = self.padding;
        }
        n
    }
    fn get_padding(&self) -> Option<u8> {
        if self.padding == 0 {
            None
        } else {
            Some(self.padding)
        }
    }
}

/// Compounds of 0..=3 members drawn from several builder types, symbolic paddings, one nested
/// compound and one third-party writer.
pub fn compound<S: Src, const SHAPE: usize>(s: &mut S) {
    let reason = Text::<12>::draw_len(s, 12);
    let bye = ByeCfg::<1, 12>::draw_with(s, reason);
    let data = Blob::<12>::draw_len(s, 12);
    let app = AppCfg::draw_with(s, data);
    let rr = RrCfg::<1>::draw(s);
    let unk = UnknownCfg::draw_with(s, data);
    let foreign = Foreign { words: s.upto(3), padding: s.u8(), fail: s.bool() };
    let b = Compound::builder();
    let b = match SHAPE {
        0 => b,
        1 => b.add_packet(bye.builder()),
        2 => b.add_packet(rr.builder()).add_packet(app.builder()),
        3 => b.add_packet(app.builder()).add_packet(bye.builder()).add_packet(unk.builder()),
        4 => b.add_packet(Compound::builder().add_packet(rr.builder()).add_packet(bye.builder())).add_packet(app.builder()),
        5 => b.add_packet(rr.builder()).add_packet(foreign),
        _ => b.add_packet(PacketBuilder::from(bye.builder())).add_packet(Sdes::builder().padding(app.padding).add_chunk(SdesChunk::builder(rr.ssrc))),
    };
    packet::<S, _, 900>(s, &b);
    vcover!(b.calculate_size() == Err(RtcpWriteError::NonLastCompoundPacketPadding) || SHAPE < 2, "non-last padding rejected");
    common::forget(b);
}

common::register! {
    q_sr_0 = sr::<_, 0, 296> => 320,
    q_sr_2 = sr::<_, 2, 344> => 320,
    q_sr_31 = sr::<_, 31, 1040> => 320,
    q_sr_32 = sr::<_, 32, 1064> => 320,
    q_rr_0 = rr::<_, 0, 276> => 320,
    q_rr_1 = rr::<_, 1, 300> => 320,
    q_rr_31 = rr::<_, 31, 1020> => 320,
    q_rr_32 = rr::<_, 32, 1044> => 320,
    q_bye_utf8_2 = bye_const_utf8::<_, 2, 1> => 16,
    q_bye_utf8_4 = bye_const_utf8::<_, 4, 2> => 16,
    q_bye_utf8_5 = bye_const_utf8::<_, 5, 2> => 16,
    q_bye_utf8_7 = bye_const_utf8::<_, 7, 3> => 16,
    q_sdes_utf8_2 = sdes_const_utf8::<_, 2, 1> => 3,
    q_sdes_utf8_5 = sdes_const_utf8::<_, 5, 2> => 3,
    q_bye_0 = bye::<_, 0, 536> => 320,
    q_bye_2 = bye::<_, 2, 544> => 320,
    q_bye_31 = bye::<_, 31, 660> => 320,
    q_bye_32 = bye::<_, 32, 664> => 320,
    q_app = app => 320,
    q_unknown = unknown => 320,
    q_sdes_item = sdes_item => 320,
    q_sdes_chunk_0 = sdes_chunk::<_, 0, 16> => 2,
    q_sdes_chunk_2 = sdes_chunk::<_, 2, 536> => 4,
    q_sdes_0 = sdes::<_, 0, 0, 268> => 2,
    q_sdes_1x1 = sdes::<_, 1, 1, 536> => 3,
    q_sdes_2x1 = sdes::<_, 2, 1, 800> => 4,
    q_sdes_1x2 = sdes::<_, 1, 2, 800> => 4,
    t_sdes_32x0 = sdes::<_, 32, 0, 520> => 34,
    q_tfb_pli = fb_pli::<_, true> => 2,
    q_pfb_pli = fb_pli::<_, false> => 2,
    q_tfb_sli = fb_sli::<_, true, 1> => 2,
    q_pfb_sli_0 = fb_sli::<_, false, 0> => 2,
    q_pfb_sli_2 = fb_sli::<_, false, 2> => 3,
    q_tfb_rpsi = fb_rpsi::<_, true> => 2,
    q_pfb_rpsi = fb_rpsi::<_, false> => 2,
    q_pfb_rpsi_owned = fb_rpsi_owned => 2,
    q_tfb_nack_0 = fb_nack::<_, true, 0> => 2,
    q_tfb_nack_1 = fb_nack::<_, true, 1> => 2,
    q_pfb_nack_1 = fb_nack::<_, false, 1> => 2,
    t_tfb_nack_2 = fb_nack::<_, true, 2> => 3,
    q_wrapped_bye = wrapped::<_, 0> => 2,
    q_wrapped_app = wrapped::<_, 1> => 2,
    q_wrapped_unknown = wrapped::<_, 2> => 2,
    q_wrapped_sr = wrapped::<_, 3> => 2,
    q_wrapped_rr = wrapped::<_, 4> => 2,
    q_wrapped_sdes = wrapped::<_, 5> => 2,
    q_wrapped_fb = wrapped_fb => 2,
    q_compound_0 = compound::<_, 0> => 2,
    q_compound_1 = compound::<_, 1> => 2,
    q_compound_2 = compound::<_, 2> => 3,
    q_compound_3 = compound::<_, 3> => 4,
    q_compound_nested = compound::<_, 4> => 3,
    q_compound_foreign = compound::<_, 5> => 3,
    q_compound_wrapped = compound::<_, 6> => 3,
    t_sr_1 = sr::<_, 1, 320> => 320,
    t_sr_3 = sr::<_, 3, 368> => 320,
    t_rr_2 = rr::<_, 2, 324> => 320,
    t_rr_3 = rr::<_, 3, 348> => 320,
    t_bye_1 = bye::<_, 1, 540> => 320,
    t_bye_3 = bye::<_, 3, 548> => 320,
    t_sdes_chunk_1 = sdes_chunk::<_, 1, 276> => 3,
    t_sdes_chunk_3 = sdes_chunk::<_, 3, 800> => 5,
    t_sdes_1x3 = sdes::<_, 1, 3, 1060> => 5,
    t_sdes_2x2 = sdes::<_, 2, 2, 1320> => 4,
    t_sdes_3x1 = sdes::<_, 3, 1, 1060> => 5,
}

common::register_hashmap! {
    q_pfb_fir_1 = fb_fir::<_, false, false> => 3,
    q_tfb_fir_1 = fb_fir::<_, true, false> => 3,
}

#[cfg(not(kani))]
pub const REGISTRIES: &[&[(&str, fn(&mut common::R))]] = &[REGISTRY, REGISTRY_HASHMAP];
