#[cfg(not(kani))]
fn main() {
    common::replay_main_multi(c06::REGISTRIES)
}
#[cfg(kani)]
fn main() {}
