#[cfg(not(kani))]
fn main() {
    common::replay_main_multi(c04::REGISTRIES)
}
#[cfg(kani)]
fn main() {}
