//! C04 — BYE and APP packets survive a build-then-parse round trip.
use common::cfg::*;
use common::{vcover, Src};
use rtcp_types::prelude::*;
use rtcp_types::*;

fn bye_roundtrip<S: Src, const NS: usize, const L: usize, const B: usize>(s: &mut S, c: &ByeCfg<NS, L>) {
    let k = s.upto(if NS > 0 { NS - 1 } else { 0 });
    let j = s.upto(if L > 0 { L - 1 } else { 0 });
    let mut buf = [0xA5u8; B];
    let mut seen = (false, false, false);
    // instances that are rejected by construction (32 sources, 256-byte reason)
    let rejected = NS > 31 || (L >= 252 && c.reason.len > 255);
    match c.builder().write_into(&mut buf) {
        Ok(n) => {
            assert!(n + 4 <= B, "HARNESS: buffer array too small");
            let p = Bye::parse(&buf[..n]).expect("own parser rejects the built BYE");
            assert!(p.padding() == if c.padding > 0 { Some(c.padding) } else { None });
            assert!(p.count() as usize == NS);
            assert!(p.ssrcs().count() == NS);
            if NS > 0 {
                assert!(p.ssrcs().nth(k) == Some(c.sources[k]));
            }
            match p.reason() {
                None => assert!(c.reason.len == 0, "reason lost"),
                Some(r) => {
                    assert!(c.reason.len > 0, "reason appeared from nowhere");
                    assert!(r.len() == c.reason.len);
                    if j < r.len() {
                        assert!(r[j] == c.reason.bytes[j]);
                    }
                }
            }
            seen = (
                c.reason.len == 0 || L < 252 || c.padding > 0,
                L >= 252 || (c.reason.len > 0 && c.padding > 0 && c.reason.len % 4 != 3),
                L >= 252 || (c.reason.len == 0 && c.padding > 0),
            );
        }
        Err(e) => {
            assert!(!c.valid(), "builder rejected a legal BYE");
            assert!(!matches!(e, RtcpWriteError::OutputTooSmall(_)));
        }
    }
    vcover!(rejected || seen.0, "long reason with padding");
    vcover!(rejected || seen.1, "reason, fill and padding");
    vcover!(rejected || seen.2, "padding without reason");
}

pub fn bye<S: Src, const NS: usize, const L: usize, const B: usize>(s: &mut S) {
    let reason = Text::<L>::draw(s, L);
    let c = ByeCfg::<NS, L>::draw_with(s, reason);
    s.assume(c.padding <= 12);
    bye_roundtrip::<S, NS, L, B>(s, &c);
}

/// Reason containing multi-byte characters (byte length != character count).
pub fn bye_utf8<S: Src>(s: &mut S) {
    let reason = Text::<12>::draw_utf8(s, 12);
    let c = ByeCfg::<1, 12>::draw_with(s, reason);
    s.assume(c.padding <= 8);
    bye_roundtrip::<S, 1, 12, 40>(s, &c);
}

pub fn bye_anypad<S: Src, const L: usize, const B: usize>(s: &mut S) {
    let reason = Text::<L>::draw(s, L);
    let c = ByeCfg::<1, L>::draw_with(s, reason);
    bye_roundtrip::<S, 1, L, B>(s, &c);
}

pub fn bye_long<S: Src, const L: usize, const B: usize>(s: &mut S) {
    let len = s.upto(L);
    let mut reason = Text::<L>::fixed::<S, 4>(s, 0);
    reason.len = len;
    let c = ByeCfg::<1, L>::draw_with(s, reason);
    s.assume(c.padding <= 12);
    bye_roundtrip::<S, 1, L, B>(s, &c);
}

pub fn bye_fixed<S: Src, const LEN: usize>(s: &mut S) {
    let reason = Text::<256>::fixed::<S, 4>(s, LEN);
    let c = ByeCfg::<1, 256>::draw_with(s, reason);
    s.assume(c.padding <= 8);
    bye_roundtrip::<S, 1, 256, 288>(s, &c);
}

/// The reason string accessor agrees with the raw one (short, arbitrary UTF-8 validity aside).
pub fn bye_reason_owned<S: Src>(s: &mut S) {
    let reason = Text::<6>::draw(s, 6);
    let src = s.u32();
    let pad = s.u8();
    s.assume(pad <= 8);
    let j = s.upto(5);
    // owned-reason variant of the builder
    let b = Bye::builder().padding(pad).add_source(src).reason_owned(reason.as_str().to_owned());
    let mut buf = [0xA5u8; 32];
    if let Ok(n) = b.write_into(&mut buf) {
        let p = Bye::parse(&buf[..n]).expect("own parser rejects the built BYE");
        assert!(p.ssrcs().next() == Some(src));
        assert!(p.padding() == if pad > 0 { Some(pad) } else { None });
        match p.reason() {
            None => assert!(reason.len == 0),
            Some(r) => {
                assert!(r.len() == reason.len);
                if j < r.len() {
                    assert!(r[j] == reason.bytes[j]);
                }
            }
        }
        vcover!(reason.len > 0, "owned reason round trip");
    }
    common::forget(b);
}

pub fn app<S: Src, const L: usize, const B: usize>(s: &mut S, maxpad: u8) {
    let data = Blob::<L>::draw(s, L);
    let c = AppCfg::draw_with(s, data);
    s.assume(c.padding <= maxpad);
    let j = s.upto(if L > 0 { L - 1 } else { 0 });
    let mut buf = [0xA5u8; B];
    match c.builder().write_into(&mut buf) {
        Ok(n) => {
            assert!(n + 4 <= B, "HARNESS: buffer array too small");
            let p = App::parse(&buf[..n]).expect("own parser rejects the built APP");
            assert!(p.ssrc() == c.ssrc);
            assert!(p.subtype() == c.subtype);
            assert!(p.padding() == if c.padding > 0 { Some(c.padding) } else { None });
            let name = p.name();
            let mut q = 0;
            while q < 4 {
                assert!(name[q] == if q < c.name_len { c.name[q] } else { 0 });
                q += 1;
            }
            let d = p.data();
            assert!(d.len() == c.data.len);
            if j < d.len() {
                assert!(d[j] == c.data.bytes[j]);
            }
            vcover!(c.padding > 0 && c.data.len > 0, "payload and padding");
            vcover!(c.name_len < 4, "short name zero-filled");
        }
        Err(e) => {
            assert!(!c.valid(), "builder rejected a legal APP");
            assert!(!matches!(e, RtcpWriteError::OutputTooSmall(_)));
        }
    }
}

pub fn app_q<S: Src>(s: &mut S) {
    app::<S, 32, 64>(s, 12)
}
pub fn app_anypad<S: Src>(s: &mut S) {
    app::<S, 8, 284>(s, 252)
}
pub fn app_long<S: Src>(s: &mut S) {
    app::<S, 64, 96>(s, 12)
}

common::register! {
    q_bye_0 = bye::<_, 0, 24, 48> => 2,
    q_bye_1 = bye::<_, 1, 24, 52> => 3,
    q_bye_2 = bye::<_, 2, 24, 56> => 4,
    q_bye_255 = bye_fixed::<_, 255> => 3,
    q_bye_254 = bye_fixed::<_, 254> => 3,
    q_bye_reason_owned = bye_reason_owned => 3,
    q_bye_utf8 = bye_utf8 => 3,
    q_app = app_q => 2,
    t_bye_31 = bye::<_, 31, 24, 172> => 33,
    t_bye_32 = bye::<_, 32, 24, 176> => 34,
    t_bye_anypad = bye_anypad::<_, 8, 280> => 3,
    t_bye_long = bye_long::<_, 128, 160> => 3,
    t_bye_252 = bye_fixed::<_, 252> => 3,
    t_bye_253 = bye_fixed::<_, 253> => 3,
    t_bye_256 = bye_fixed::<_, 256> => 3,
    t_app_anypad = app_anypad => 2,
    t_app_long = app_long => 2,
}

#[cfg(not(kani))]
pub const REGISTRIES: &[&[(&str, fn(&mut common::R))]] = &[REGISTRY];
