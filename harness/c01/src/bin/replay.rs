#[cfg(not(kani))]
fn main() {
    common::replay_main(c01::REGISTRY)
}
#[cfg(kani)]
fn main() {}
