//! C01 — parsing untrusted bytes never panics and always terminates.
//!
//! Oracle: absence of any reachable panic (Kani turns every bounds check, overflow check,
//! `unwrap`/`expect` and explicit `panic!` of the compiled crate into an assertion), plus
//! explicit step counters on iterators: an iterator that yields more than the input length
//! allows fails an ordinary assertion (which also replays natively).
use common::{forget, vcover, Src};
use rtcp_types::prelude::*;
use rtcp_types::*;

macro_rules! input {
    ($s:ident, $n:expr => $data:ident, $len:ident, $d:ident) => {
        let $data: [u8; $n] = $s.bytes();
        let $len = $s.upto($n);
        let $d = &$data[..$len];
    };
}

fn header<'a, P: RtcpPacketParserExt<'a>>(p: &P) {
    let _ = (p.version(), p.type_(), p.subtype(), p.length(), p.count());
}

// ------------------------------------------------------------------ fixed-layout packets

pub fn app<S: Src, const N: usize>(s: &mut S) {
    input!(s, N => data, len, d);
    if let Ok(p) = App::parse(d) {
        header(&p);
        let _ = (p.padding(), p.ssrc(), p.name());
        let payload = p.data();
        assert!(payload.len() <= len);
        vcover!(p.padding().is_some(), "accepted with padding");
        vcover!(true, "accepted");
    }
}

pub fn bye<S: Src, const N: usize>(s: &mut S) {
    input!(s, N => data, len, d);
    let k = s.upto(if N / 4 < 32 { N / 4 } else { 32 });
    if let Ok(p) = Bye::parse(d) {
        header(&p);
        let _ = p.padding();
        let n = p.ssrcs().count();
        assert!(n <= len / 4);
        let _ = p.ssrcs().nth(k);
        if let Some(r) = p.reason() {
            assert!(r.len() <= len);
        }
        vcover!(p.reason().is_some(), "accepted with reason");
        vcover!(p.padding().is_some(), "accepted with padding");
    }
}

fn block(b: &ReportBlock<'_>) {
    let _ = (
        b.ssrc(),
        b.fraction_lost(),
        b.cumulative_lost(),
        b.extended_sequence_number(),
        b.interarrival_jitter(),
        b.last_sender_report_timestamp(),
        b.delay_since_last_sender_report_timestamp(),
    );
}

pub fn rr<S: Src, const N: usize>(s: &mut S) {
    input!(s, N => data, len, d);
    let k = s.upto(if N / 4 < 32 { N / 4 } else { 32 });
    if let Ok(p) = ReceiverReport::parse(d) {
        header(&p);
        let _ = (p.padding(), p.ssrc(), p.n_reports());
        assert!(p.report_blocks().count() <= len / 24);
        if let Some(b) = p.report_blocks().nth(k) {
            block(&b);
            vcover!(true, "a report block was read");
        }
        vcover!(true, "accepted");
    }
}

pub fn sr<S: Src, const N: usize>(s: &mut S) {
    input!(s, N => data, len, d);
    let k = s.upto(if N / 4 < 32 { N / 4 } else { 32 });
    if let Ok(p) = SenderReport::parse(d) {
        header(&p);
        let _ = (p.padding(), p.ssrc(), p.n_reports());
        let _ = (p.ntp_timestamp(), p.rtp_timestamp(), p.packet_count(), p.octet_count());
        assert!(p.report_blocks().count() <= len / 24);
        if let Some(b) = p.report_blocks().nth(k) {
            block(&b);
            vcover!(true, "a report block was read");
        }
        vcover!(true, "accepted");
    }
}

pub fn report_block<S: Src>(s: &mut S) {
    input!(s, 40 => data, len, d);
    if let Ok(b) = ReportBlock::parse(d) {
        block(&b);
        vcover!(true, "accepted");
    }
    vcover!(len != 24, "rejected length");
}

pub fn unknown<S: Src, const N: usize>(s: &mut S) {
    input!(s, N => data, len, d);
    if let Ok(p) = Unknown::parse(d) {
        header(&p);
        assert!(p.data().len() == len);
        vcover!(true, "accepted");
    }
}

/// Conversions of an unknown packet into every typed packet (SDES apart: its loops).
pub fn unknown_try_as<S: Src, const N: usize>(s: &mut S) {
    input!(s, N => data, len, d);
    if let Ok(p) = Unknown::parse(d) {
        let _ = p.try_as::<App>().map(forget);
        let _ = p.try_as::<Bye>().map(forget);
        let _ = p.try_as::<ReceiverReport>().map(forget);
        let _ = p.try_as::<SenderReport>().map(forget);
        let _ = p.try_as::<TransportFeedback>().map(forget);
        let _ = p.try_as::<PayloadFeedback>().map(forget);
        vcover!(p.try_as::<Bye>().is_ok(), "converted to BYE");
    }
}

pub fn unknown_try_as_sdes<S: Src, const N: usize>(s: &mut S) {
    input!(s, N => data, len, d);
    if let Ok(p) = Unknown::parse(d) {
        let r = p.try_as::<Sdes>();
        vcover!(r.is_ok(), "converted to SDES");
        let _ = r.map(forget);
    }
}

/// Generic parser on non-SDES input, conversions by reference and by value.
pub fn generic<S: Src, const N: usize>(s: &mut S) {
    input!(s, N => data, len, d);
    if len >= 2 {
        s.assume(d[1] != 202);
    }
    if let Ok(p) = Packet::parse(d) {
        header(&p);
        let _ = p.is_unknown();
        let _ = p.try_as::<App>().map(forget);
        let _ = p.try_as::<Bye>().map(forget);
        let _ = p.try_as::<ReceiverReport>().map(forget);
        let _ = p.try_as::<SenderReport>().map(forget);
        let _ = p.try_as::<TransportFeedback>().map(forget);
        let _ = p.try_as::<PayloadFeedback>().map(forget);
        let _ = p.try_as::<Sdes>().map(forget);
        vcover!(p.is_unknown(), "unknown variant");
        vcover!(!p.is_unknown(), "known variant");
        let r: Result<Bye, _> = p.try_into();
        let _ = r.map(forget);
    }
}

// ------------------------------------------------------------------ feedback + FCI

fn rpsi(f: &Rpsi<'_>, fci_len: usize) {
    let _ = f.payload_type();
    let (bits, pad) = f.bit_string();
    assert!(bits.len() <= fci_len && pad < 8);
}

pub fn tfb<S: Src, const N: usize>(s: &mut S) {
    input!(s, N => data, len, d);
    if let Ok(p) = TransportFeedback::parse(d) {
        header(&p);
        let _ = (p.padding(), p.sender_ssrc(), p.media_ssrc());
        // transport kind: only NACK can succeed; every pairing must return normally
        if let Ok(f) = p.parse_fci::<Nack>() {
            let _ = f.entries().next();
            vcover!(true, "NACK decoded");
        }
        assert!(p.parse_fci::<Fir>().is_err());
        assert!(p.parse_fci::<Sli>().is_err());
        assert!(p.parse_fci::<Rpsi>().is_err());
        assert!(p.parse_fci::<Pli>().is_err());
    }
}

/// `WHICH` selects the FCI pairings exercised (the instances run side by side): 0 = NACK
/// (must fail) and FIR, 1 = SLI, 2 = RPSI and PLI.
pub fn pfb<S: Src, const N: usize, const WHICH: u8>(s: &mut S) {
    input!(s, N => data, len, d);
    let k = s.upto(N / 4);
    let mut seen = false;
    if let Ok(p) = PayloadFeedback::parse(d) {
        header(&p);
        let _ = (p.padding(), p.sender_ssrc(), p.media_ssrc());
        if WHICH == 0 {
            assert!(p.parse_fci::<Nack>().is_err());
            if let Ok(f) = p.parse_fci::<Fir>() {
                let mut it = f.entries();
                let mut n = 0;
                while let Some(e) = it.next() {
                    let _ = (e.ssrc(), e.sequence());
                    n += 1;
                    assert!(n <= (len - 12) / 8);
                }
                let _ = f.entries().nth(k);
                seen = n > 0;
            }
        } else if WHICH == 1 {
            if let Ok(f) = p.parse_fci::<Sli>() {
                let mut it = f.lost_macroblocks();
                let mut n = 0;
                while it.next().is_some() {
                    n += 1;
                    assert!(n <= (len - 12) / 4);
                }
                let _ = f.lost_macroblocks().nth(k);
                seen = n > 0;
            }
        } else {
            if let Ok(f) = p.parse_fci::<Rpsi>() {
                rpsi(&f, len - 12);
                seen = true;
            }
            if let Ok(f) = p.parse_fci::<Pli>() {
                forget(f);
                seen = true;
            }
        }
    }
    vcover!(seen, "FCI decoded");
}

/// The FCI parsers are public entry points of their own (`FciParser::parse`): arbitrary
/// byte strings, including lengths that are not a multiple of 4.
pub fn fci_fir<S: Src, const N: usize>(s: &mut S) {
    input!(s, N => data, len, d);
    let k = s.upto(N / 8 + 1);
    if let Ok(f) = <Fir as FciParser>::parse(d) {
        let mut it = f.entries();
        let mut n = 0;
        while let Some(e) = it.next() {
            let _ = (e.ssrc(), e.sequence());
            n += 1;
            assert!(n <= len / 8);
        }
        assert!(it.next().is_none());
        let _ = f.entries().nth(k);
        vcover!(n > 1, "two FIR entries");
        vcover!(len % 8 != 0, "ragged FIR length");
    }
}

pub fn fci_sli<S: Src, const N: usize>(s: &mut S) {
    input!(s, N => data, len, d);
    let k = s.upto(N / 4 + 1);
    if let Ok(f) = <Sli as FciParser>::parse(d) {
        let mut it = f.lost_macroblocks();
        let mut n = 0;
        while it.next().is_some() {
            n += 1;
            assert!(n <= len / 4);
        }
        assert!(it.next().is_none());
        let _ = f.lost_macroblocks().nth(k);
        vcover!(n > 1, "two SLI entries");
        vcover!(len % 4 != 0, "ragged SLI length");
    }
}

pub fn fci_rpsi<S: Src, const N: usize>(s: &mut S) {
    input!(s, N => data, len, d);
    if let Ok(f) = <Rpsi as FciParser>::parse(d) {
        rpsi(&f, len);
        vcover!(d[0] >= 8, "RPSI with padding bytes");
    }
    vcover!(len >= 4 && <Rpsi as FciParser>::parse(d).is_err(), "RPSI rejected");
}

pub fn fci_pli<S: Src>(s: &mut S) {
    input!(s, 8 => data, len, d);
    let r = <Pli as FciParser>::parse(d);
    vcover!(r.is_ok(), "PLI accepted");
    vcover!(r.is_err(), "PLI rejected");
}

/// NACK entry iterator, one step from an arbitrary position (hook): `next()` returns
/// normally and makes progress in the rank (word, slot), so that at most 17 values per
/// 32-bit word are yielded and iteration ends: termination for FCIs of any word count
/// within the byte bound follows by induction on the rank.
pub fn nack_step<S: Src, const N: usize>(s: &mut S) {
    input!(s, N => data, len, d);
    let i = s.upto(N / 4 + 1);
    let m = s.upto(17);
    let nack = <Nack as FciParser>::parse(d).unwrap();
    let mut it = verif::nack::entries_at(&nack, i, m);
    let r = it.next();
    let (i2, m2) = verif::nack::state(&it);
    let before = i * 17 + if m > 16 { 17 } else { m };
    let after = i2 * 17 + if m2 > 16 { 17 } else { m2 };
    match r {
        Some(_) => {
            assert!(after > before);
            assert!(i2 * 4 + 4 <= len && m2 >= 1 && m2 <= 17);
        }
        None => {
            // finished: the state it stops in is again one from which `next()` is `None`
            assert!((i2 + 1) * 4 > len && m2 <= 16);
        }
    }
    vcover!(r.is_some() && i2 > i, "moved to the next word");
    vcover!(r.is_none(), "finished");
}

/// NACK through the public API only: first three values of a short list.
pub fn nack_public<S: Src, const N: usize>(s: &mut S) {
    input!(s, N => data, len, d);
    let nack = <Nack as FciParser>::parse(d).unwrap();
    let mut it = nack.entries();
    let a = it.next();
    let b = it.next();
    let c = it.next();
    assert!(len >= 4 || a.is_none());
    vcover!(c.is_some(), "three values");
    vcover!(a.is_some() && b.is_none(), "one value");
}

// ------------------------------------------------------------------ compound

/// Length chain from `offset` partitions the rest of `d` exactly (reference tiling).
fn tiles_from(d: &[u8], mut offset: usize) -> bool {
    while offset < d.len() {
        if d.len() < offset + 4 {
            return false;
        }
        let l = 4 * (common::refs::be16(d, offset + 2) as usize + 1);
        if d.len() < offset + l {
            return false;
        }
        offset += l;
    }
    offset == d.len()
}

/// One `next()` from any state `Compound::parse` + `next()` can reach.
pub fn compound_step<S: Src, const N: usize, const SDES: bool>(s: &mut S) {
    input!(s, N => data, len, d);
    let offset = s.upto(N);
    let over = s.bool();
    // invariant of reachable states
    s.assume(len > 0 && offset <= len && (offset < len || over));
    s.assume(tiles_from(d, offset));
    if offset + 2 <= len {
        s.assume((d[offset + 1] == 202) == SDES);
    }
    let mut c = verif::compound::from_state(d, offset, over);
    let r = c.next();
    let (o2, over2) = verif::compound::state(&c);
    if over {
        assert!(r.is_none() && o2 == offset && over2);
    } else {
        assert!(r.is_some());
        assert!(o2 > offset && o2 <= len);
        assert!(over2 || o2 < len);
        assert!(tiles_from(d, o2));
    }
    vcover!(r.is_some() && !over2, "more tiles follow");
    vcover!(matches!(r, Some(Ok(_))), "tile parsed");
    vcover!(matches!(r, Some(Err(_))), "tile rejected");
    forget(r);
}

/// Public API only: parse, then call `next()` a fixed number of times (more than tiles fit).
pub fn compound_public<S: Src, const N: usize>(s: &mut S) {
    input!(s, N => data, len, d);
    let mut k = 1;
    while k < len {
        s.assume(d[k] != 202);
        k += 4;
    }
    if let Ok(mut c) = Compound::parse(d) {
        let mut n = 0;
        let mut calls = 0;
        while calls < N / 4 + 2 {
            if let Some(r) = c.next() {
                n += 1;
                forget(r);
            }
            calls += 1;
        }
        assert!(n >= 1 && n <= len / 4);
        vcover!(n == 2, "two tiles");
    }
}

// ------------------------------------------------------------------ SDES

fn item(i: &SdesItem<'_>, limit: usize) {
    let _ = i.type_();
    assert!(i.length() <= 255);
    assert!(i.value().len() <= limit);
    // documented exemption: the PRIV accessors may only be called on PRIV items
    if i.type_() == SdesItem::PRIV {
        assert!(i.priv_prefix().len() == i.priv_prefix_len() as usize);
    }
}

pub fn sdes_item<S: Src, const N: usize>(s: &mut S) {
    input!(s, N => data, len, d);
    if let Ok((i, end)) = verif::sdes::item_parse(d) {
        assert!(end <= len);
        item(&i, len);
        vcover!(i.type_() == SdesItem::PRIV, "PRIV item accepted");
        vcover!(i.type_() != SdesItem::PRIV, "plain item accepted");
    }
}

pub fn sdes_chunk<S: Src, const N: usize>(s: &mut S) {
    input!(s, N => data, len, d);
    let k = s.upto(N / 2);
    if let Ok((c, end)) = verif::sdes::chunk_parse(d) {
        assert!(end <= len);
        let _ = (c.ssrc(), c.length());
        assert!(c.items().count() <= len / 2);
        if let Some(i) = c.items().nth(k) {
            item(i, len);
            vcover!(true, "an item was read");
        }
        forget(c);
    }
}

pub fn sdes<S: Src, const N: usize>(s: &mut S) {
    input!(s, N => data, len, d);
    let j = s.upto(N / 4);
    let k = s.upto(N / 2);
    if let Ok(p) = Sdes::parse(d) {
        header(&p);
        let _ = p.padding();
        assert!(p.chunks().count() <= len / 4);
        if let Some(c) = p.chunks().nth(j) {
            let _ = (c.ssrc(), c.length());
            assert!(c.items().count() <= len / 2);
            if let Some(i) = c.items().nth(k) {
                item(i, len);
                vcover!(true, "an item was read");
            }
        }
        vcover!(p.padding().is_some(), "accepted with padding");
        forget(p);
    }
}

// ------------------------------------------------------------------ String conversions

pub fn app_name_string<S: Src>(s: &mut S) {
    input!(s, 16 => data, len, d);
    if let Ok(p) = App::parse(d) {
        let r = p.get_name_string();
        vcover!(r.is_ok(), "valid name");
        vcover!(r.is_err(), "invalid UTF-8 name");
        forget(r);
    }
}

/// `get_reason_string` / `get_value_string` on texts of concrete length `L` with symbolic bytes
/// (valid and invalid UTF-8): the symbolic-length versions below exhaust memory in the heap
/// copy + UTF-8 validation and are not registered.
pub fn bye_reason_string_fixed<S: Src, const L: usize>(s: &mut S) {
    let mut data: [u8; 16] = s.bytes();
    let n = 8 + (1 + L + 3) / 4 * 4;
    data[0] = 0x81;
    data[1] = 203;
    data[2] = 0;
    data[3] = (n / 4 - 1) as u8;
    data[8] = L as u8;
    let p = Bye::parse(&data[..n]).expect("HARNESS: well-formed BYE");
    let r = p.get_reason_string();
    assert!(r.is_some() == (L > 0));
    vcover!(matches!(r, Some(Ok(_))), "valid reason");
    vcover!(matches!(r, Some(Err(_))), "invalid UTF-8 reason");
    forget(r);
}

pub fn item_value_string_fixed<S: Src, const L: usize>(s: &mut S) {
    let mut data: [u8; 8] = s.bytes();
    data[0] = 1;
    data[1] = L as u8;
    let (i, _) = verif::sdes::item_parse(&data[..2 + L]).expect("HARNESS: well-formed item");
    let r = i.get_value_string();
    vcover!(r.is_ok(), "valid value");
    vcover!(r.is_err(), "invalid UTF-8 value");
    forget(r);
}

pub fn bye_reason_string<S: Src>(s: &mut S) {
    input!(s, 12 => data, len, d);
    if let Ok(p) = Bye::parse(d) {
        let r = p.get_reason_string();
        vcover!(matches!(r, Some(Ok(_))), "valid reason");
        vcover!(matches!(r, Some(Err(_))), "invalid UTF-8 reason");
        forget(r);
    }
}

pub fn item_value_string<S: Src>(s: &mut S) {
    input!(s, 10 => data, len, d);
    if let Ok((i, _)) = verif::sdes::item_parse(d) {
        let r = i.get_value_string();
        vcover!(r.is_ok(), "valid value");
        vcover!(r.is_err(), "invalid UTF-8 value");
        forget(r);
    }
}

common::register! {
    q_app = app::<_, 300> => 2,
    q_bye = bye::<_, 64> => 2,
    q_rr = rr::<_, 64> => 2,
    q_sr = sr::<_, 64> => 2,
    q_rr_full = rr::<_, 776> => 2,
    q_sr_full = sr::<_, 796> => 2,
    q_report_block = report_block => 2,
    q_unknown = unknown::<_, 300> => 2,
    q_unknown_try_as = unknown_try_as::<_, 32> => 2,
    q_unknown_try_as_sdes = unknown_try_as_sdes::<_, 12> => 2,
    q_generic = generic::<_, 32> => 2,
    q_tfb = tfb::<_, 32> => 2,
    q_pfb_fir = pfb::<_, 32, 0> => 2,
    q_pfb_sli = pfb::<_, 32, 1> => 2,
    q_pfb_rpsi_pli = pfb::<_, 300, 2> => 2,
    q_fci_fir = fci_fir::<_, 24> => 2,
    q_fci_sli = fci_sli::<_, 16> => 2,
    q_fci_rpsi = fci_rpsi::<_, 300> => 2,
    q_fci_pli = fci_pli => 2,
    q_nack_step = nack_step::<_, 64> => 2,
    q_compound_step = compound_step::<_, 64, false> => 2,
    q_compound_step_sdes = compound_step::<_, 12, true> => 2,
    q_sdes_item = sdes_item::<_, 300> => 2,
    q_sdes_chunk = sdes_chunk::<_, 16> => 2,
    q_sdes = sdes::<_, 16> => 2,
    q_app_name_string = app_name_string => 2,
    q_bye_reason_string_3 = bye_reason_string_fixed::<_, 3> => 2,
    q_item_value_string_3 = item_value_string_fixed::<_, 3> => 2,
    t_app = app::<_, 1100> => 2,
    t_bye = bye::<_, 256> => 2,
    t_rr = rr::<_, 256> => 2,
    t_sr = sr::<_, 256> => 2,
    t_unknown = unknown::<_, 1100> => 2,
    t_unknown_try_as = unknown_try_as::<_, 128> => 2,
    t_unknown_try_as_sdes = unknown_try_as_sdes::<_, 16> => 2,
    t_generic = generic::<_, 128> => 2,
    t_tfb = tfb::<_, 128> => 2,
    t_pfb_fir = pfb::<_, 52, 0> => 2,
    t_pfb_sli = pfb::<_, 52, 1> => 2,
    t_pfb_rpsi_pli = pfb::<_, 1100, 2> => 2,
    t_fci_fir = fci_fir::<_, 40> => 2,
    t_fci_sli = fci_sli::<_, 40> => 2,
    t_fci_rpsi = fci_rpsi::<_, 1100> => 2,
    t_nack_step = nack_step::<_, 1024> => 2,
    t_nack_public = nack_public::<_, 8> => 2,
    t_compound_step = compound_step::<_, 128, false> => 2,
    t_compound_step_sdes = compound_step::<_, 16, true> => 2,
    t_compound_public = compound_public::<_, 16> => 2,
    t_sdes_chunk = sdes_chunk::<_, 32> => 2,
    t_sdes = sdes::<_, 24> => 2,
}
