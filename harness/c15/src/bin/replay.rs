#[cfg(not(kani))]
fn main() {
    common::replay_main_multi(c15::REGISTRIES)
}
#[cfg(kani)]
fn main() {}
