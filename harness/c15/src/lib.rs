//! C15 — FCI decoding follows RFC 4585/5104 for arbitrary control information.
use common::refs::*;
use common::{forget, vcover, Src};
use rtcp_types::prelude::*;
use rtcp_types::*;

macro_rules! input {
    ($s:ident, $n:expr => $data:ident, $len:ident, $d:ident) => {
        let $data: [u8; $n] = $s.bytes();
        let $len = $s.upto($n);
        let $d = &$data[..$len];
    };
}

// ------------------------------------------------------------------ content oracles

/// FIR: entry `k` is (SSRC, sequence) of the `k`-th 64-bit entry.
fn fir_ok(f: &Fir<'_>, fci: &[u8], k: usize) {
    match f.entries().nth(k) {
        Some(e) => {
            assert!(8 * k + 8 <= fci.len(), "entry beyond the FCI");
            assert!(e.ssrc() == be32(fci, 8 * k) && e.sequence() == fci[8 * k + 4]);
        }
        None => assert!(8 * k + 8 > fci.len(), "complete entry not yielded"),
    }
}

/// SLI: entry `k` is the 13/13/6-bit split of the `k`-th 32-bit word.
fn sli_ok(f: &Sli<'_>, fci: &[u8], k: usize) {
    match f.lost_macroblocks().nth(k) {
        Some(e) => {
            assert!(4 * k + 4 <= fci.len(), "entry beyond the FCI");
            let w = be32(fci, 4 * k);
            let want = ((w >> 19) as u16, ((w >> 6) & 0x1fff) as u16, (w & 0x3f) as u8);
            assert!(verif::sli::fields(&e) == want);
        }
        None => assert!(4 * k + 4 > fci.len(), "complete entry not yielded"),
    }
}

/// RPSI: 7-bit payload type, bit string = the bytes after the two header bytes minus PB bits.
fn rpsi_ok(f: &Rpsi<'_>, fci: &[u8]) {
    assert!(f.payload_type() == fci[1] & 0x7f);
    let pb = fci[0] as usize;
    let (bytes, ignore) = f.bit_string();
    assert!(ignore < 8);
    assert!(bytes.as_ptr() == fci[2..].as_ptr(), "bit string does not start after the header");
    // the padding cannot be longer than the bit string it pads
    assert!(pb <= 8 * (fci.len() - 2), "accepted more padding bits than the bit string has");
    assert!(8 * bytes.len() >= ignore, "more bits to ignore than the returned string has");
    assert!(8 * bytes.len() - ignore == 8 * (fci.len() - 2) - pb, "padding bits not removed");
}

// ------------------------------------------------------------------ packets: gating + content

pub fn tfb<S: Src, const N: usize>(s: &mut S) {
    input!(s, N => data, len, d);
    if let Ok(p) = TransportFeedback::parse(d) {
        let fmt = d[0] & 0x1f;
        let pad = if d[0] & 0x20 != 0 { d[len - 1] as usize } else { 0 };
        let fci = &d[12..len - pad];
        // only NACK is a transport-layer FCI; it needs format 1
        match p.parse_fci::<Nack>() {
            Ok(f) => {
                assert!(fmt == 1);
                // first value = PID of the first word, iff there is a complete word
                match f.entries().next() {
                    Some(v) => assert!(fci.len() >= 4 && v == be16(fci, 0)),
                    None => assert!(fci.len() < 4),
                }
                vcover!(pad > 0 && fci.len() >= 4, "padded NACK decoded");
            }
            Err(_) => assert!(fmt != 1),
        }
        assert!(p.parse_fci::<Fir>().is_err(), "payload FCI decoded from a transport packet");
        assert!(p.parse_fci::<Sli>().is_err());
        assert!(p.parse_fci::<Rpsi>().is_err());
        assert!(p.parse_fci::<Pli>().is_err());
    }
}

pub fn pfb<S: Src, const N: usize>(s: &mut S) {
    input!(s, N => data, len, d);
    let k = s.upto(N / 4);
    if let Ok(p) = PayloadFeedback::parse(d) {
        let fmt = d[0] & 0x1f;
        let pad = if d[0] & 0x20 != 0 { d[len - 1] as usize } else { 0 };
        let fci = &d[12..len - pad];
        assert!(p.parse_fci::<Nack>().is_err(), "transport FCI decoded from a payload packet");
        if let Ok(f) = p.parse_fci::<Pli>() {
            assert!(fmt == 1 && fci.is_empty(), "PLI accepts only an empty body");
            forget(f);
            vcover!(pad > 0, "padded PLI decoded");
        }
        if let Ok(f) = p.parse_fci::<Sli>() {
            assert!(fmt == 2);
            sli_ok(&f, fci, k);
            vcover!(pad > 0, "padded SLI decoded");
        }
        if let Ok(f) = p.parse_fci::<Rpsi>() {
            assert!(fmt == 3);
            rpsi_ok(&f, fci);
            vcover!(pad > 0, "padded RPSI decoded");
        }
        if let Ok(f) = p.parse_fci::<Fir>() {
            assert!(fmt == 4);
            fir_ok(&f, fci, k);
            vcover!(pad > 0, "padded FIR decoded");
        }
        // a well-framed empty PLI must decode
        if fmt == 1 && fci.is_empty() {
            assert!(p.parse_fci::<Pli>().is_ok());
        }
    }
}

// ------------------------------------------------------------------ FCI parsers on arbitrary bytes

pub fn fci_fir<S: Src, const N: usize>(s: &mut S) {
    input!(s, N => data, len, d);
    let k = s.upto(N / 8 + 1);
    if let Ok(f) = <Fir as FciParser>::parse(d) {
        fir_ok(&f, d, k);
        vcover!(k == 1 && len >= 16, "second entry");
    }
}

pub fn fci_sli<S: Src, const N: usize>(s: &mut S) {
    input!(s, N => data, len, d);
    let k = s.upto(N / 4 + 1);
    if let Ok(f) = <Sli as FciParser>::parse(d) {
        sli_ok(&f, d, k);
        vcover!(k == 1 && len >= 8, "second entry");
    }
}

pub fn fci_rpsi<S: Src, const N: usize>(s: &mut S) {
    input!(s, N => data, len, d);
    match <Rpsi as FciParser>::parse(d) {
        Ok(f) => {
            rpsi_ok(&f, d);
            vcover!(d[0] % 8 != 0 && d[0] > 8, "padding bytes and bits");
        }
        // rejected only when there is no header or the padding exceeds the string
        Err(_) => assert!(len < 4 || d[0] as usize > 8 * (len - 2)),
    }
}

pub fn fci_pli<S: Src>(s: &mut S) {
    input!(s, 8 => data, len, d);
    assert!(<Pli as FciParser>::parse(d).is_ok() == (len == 0));
    vcover!(len == 0, "empty PLI");
    vcover!(len > 0, "non-empty PLI rejected");
}

/// NACK, one step from any position (hook): the value and the new position are those of the
/// RFC 4585 §6.2.1 sequence "PID, then PID+k for each set bit k-1 of BLP in increasing k, word
/// after word".  Slot 0 of a word is its PID, slot k (1..=16) is PID+k.  By induction from the
/// start position (0, 0) the whole iteration is the RFC sequence for any number of words.
pub fn nack_step<S: Src, const N: usize>(s: &mut S) {
    input!(s, N => data, len, d);
    let i = s.upto(N / 4 + 1);
    let m = s.upto(17);
    let nack = <Nack as FciParser>::parse(d).unwrap();
    let mut it = verif::nack::entries_at(&nack, i, m);
    let got = it.next();
    let (i2, m2) = verif::nack::state(&it);
    // reference: next present slot at or after (i, m)
    let (mut wi, mut slot) = if m > 16 { (i + 1, 0) } else { (i, m) };
    let mut want = None;
    let mut round = 0;
    while round < 2 && want.is_none() {
        if 4 * wi + 4 > len {
            break;
        }
        let pid = be16(d, 4 * wi);
        let blp = be16(d, 4 * wi + 2);
        let mut k = 0;
        while k <= 16 {
            if want.is_none() && k >= slot && (k == 0 || blp & (1 << (k - 1)) != 0) {
                want = Some((pid.wrapping_add(k as u16), wi, k + 1));
            }
            k += 1;
        }
        if want.is_none() {
            wi += 1;
            slot = 0;
        }
        round += 1;
    }
    match (got, want) {
        (Some(v), Some((w, wi2, next_slot))) => {
            assert!(v == w, "wrong sequence number");
            let (ni, nm) = if m2 > 16 { (i2 + 1, 0) } else { (i2, m2) };
            let (ri, rm) = if next_slot > 16 { (wi2 + 1, 0) } else { (wi2, next_slot) };
            assert!(ni == ri && nm == rm, "iterator position is not the next slot");
        }
        (None, None) => {}
        _ => panic!("iterator and RFC sequence disagree on whether a value remains"),
    }
    vcover!(matches!(want, Some((_, w, _)) if w > i), "value taken from the following word");
    vcover!(got.is_none() && len >= 4, "end of list");
    vcover!(matches!(want, Some((_, _, n)) if n > 2), "value from the bitmask");
}

/// NACK through the public iterator only (no hook): the first two values of a one-word list
/// against the RFC sequence, for all 2^32 words in one query.
pub fn nack_word_public<S: Src>(s: &mut S) {
    let data: [u8; 4] = s.bytes();
    let nack = <Nack as FciParser>::parse(&data).unwrap();
    let mut it = nack.entries();
    let first = it.next();
    let second = it.next();
    let pid = be16(&data, 0);
    let blp = be16(&data, 2);
    assert!(first == Some(pid));
    // lowest set bit k-1 gives PID + k
    let mut want = None;
    let mut slot = 16;
    while slot >= 1 {
        if blp & (1 << (slot - 1)) != 0 {
            want = Some(pid.wrapping_add(slot as u16));
        }
        slot -= 1;
    }
    assert!(second == want);
    vcover!(second.is_some() && pid > 0xfff0, "second value wraps around");
    vcover!(second.is_none(), "empty bitmask");
}

common::register! {
    q_tfb = tfb::<_, 40> => 2,
    q_pfb = pfb::<_, 40> => 2,
    q_fci_fir = fci_fir::<_, 24> => 2,
    q_fci_sli = fci_sli::<_, 24> => 2,
    q_fci_rpsi = fci_rpsi::<_, 300> => 2,
    q_fci_pli = fci_pli => 2,
    q_nack_step = nack_step::<_, 40> => 2,
    t_tfb = tfb::<_, 64> => 2,
    t_pfb = pfb::<_, 64> => 2,
    t_fci_fir = fci_fir::<_, 40> => 2,
    t_fci_sli = fci_sli::<_, 40> => 2,
    t_fci_rpsi = fci_rpsi::<_, 1100> => 2,
    t_nack_step = nack_step::<_, 1024> => 2,
    t_nack_word_public = nack_word_public => 2,
}

#[cfg(not(kani))]
pub const REGISTRIES: &[&[(&str, fn(&mut common::R))]] = &[REGISTRY];
