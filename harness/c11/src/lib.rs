//! C11 — compound parsing tiles the datagram and iterates it faithfully.
//!
//! (a) `Compound::parse(d)` is Ok exactly when `d` is non-empty and the chain of length
//!     fields partitions it (reference tiling loop).
//! (b) one `next()` from every state reachable after a successful parse (hook
//!     `verif::compound`): finished => `None`, state unchanged; otherwise `Some(r)` with `r`
//!     what `Packet::parse` returns for the tile at the offset, the offset advanced by the
//!     tile length, finished iff `r` is an error or the end is reached, and the state is
//!     again reachable.  (a)+(b) give every clause of C11 for any number of tiles by induction
//!     on the number of calls.
//! (c) public API only, short datagrams, as a cross-check of the hook.
use common::refs::*;
use common::{forget, vcover, Src};
use rtcp_types::prelude::*;
use rtcp_types::*;

/// Reference tiling: length chain from `offset` partitions the rest of `d` exactly.
fn tiles_from(d: &[u8], mut offset: usize) -> bool {
    while offset < d.len() {
        if d.len() < offset + 4 {
            return false;
        }
        let l = 4 * (be16(d, offset + 2) as usize + 1);
        if d.len() < offset + l {
            return false;
        }
        offset += l;
    }
    offset == d.len()
}

pub fn parse<S: Src, const N: usize>(s: &mut S) {
    let data: [u8; N] = s.bytes();
    let len = s.upto(N);
    let d = &data[..len];
    let want = len > 0 && tiles_from(d, 0);
    match Compound::parse(d) {
        Ok(c) => {
            assert!(want, "accepted a datagram the length chain does not partition");
            assert!(verif::compound::state(&c) == (0, false));
            vcover!(len > 8, "accepted with several tiles");
        }
        Err(_) => {
            assert!(!want, "rejected a well-tiled datagram");
            vcover!(len > 8, "rejected");
        }
    }
}

fn same_variant(a: &Packet<'_>, b: &Packet<'_>) -> bool {
    core::mem::discriminant(a) == core::mem::discriminant(b)
}

pub fn step<S: Src, const N: usize, const SDES: bool>(s: &mut S) {
    let data: [u8; N] = s.bytes();
    let len = s.upto(N);
    let d = &data[..len];
    let offset = s.upto(N);
    let over = s.bool();
    s.assume(len > 0 && offset <= len && (offset < len || over));
    s.assume(tiles_from(d, offset));
    if offset + 2 <= len {
        s.assume((d[offset + 1] == PT_SDES) == SDES);
    }
    let mut c = verif::compound::from_state(d, offset, over);
    let r = c.next();
    let (o2, over2) = verif::compound::state(&c);
    if over {
        assert!(r.is_none(), "yields after the end");
        assert!(o2 == offset && over2, "finished iterator changed state");
        vcover!(true, "fused");
    } else {
        let l = 4 * (be16(d, offset + 2) as usize + 1);
        let tile = &d[offset..offset + l];
        let want = Packet::parse(tile);
        let got = r.expect("no item although tiles remain");
        match (&got, &want) {
            (Ok(a), Ok(b)) => {
                assert!(same_variant(a, b));
                assert!(u32::from_be_bytes(a.header_data()) == u32::from_be_bytes(b.header_data()) && a.length() == l);
                if let (Packet::Unknown(x), Packet::Unknown(y)) = (a, b) {
                    assert!(x.data().as_ptr() == tile.as_ptr() && y.data().len() == x.data().len());
                }
                if let (Packet::App(x), Packet::App(y)) = (a, b) {
                    assert!(x.data().as_ptr() == y.data().as_ptr() && x.data().len() == y.data().len());
                }
            }
            (Err(a), Err(b)) => assert!(a == b),
            _ => panic!("item differs from the generic parser's result for the tile"),
        }
        assert!(o2 == offset + l, "offset not advanced by the tile length");
        assert!(over2 == (got.is_err() || o2 >= len), "wrong end-of-iteration flag");
        assert!(tiles_from(d, o2) && o2 <= len, "left the reachable states");
        vcover!(got.is_ok() && !over2, "tile parsed, more follow");
        vcover!(got.is_err(), "tile rejected: iteration stops");
        vcover!(got.is_ok() && over2, "last tile");
        forget((got, want));
    }
}

/// Public API only: parse, then `next()` repeatedly; item `k` is the generic parser's result
/// for tile `k`, iteration stops after the first error or the last tile and stays stopped.
pub fn public<S: Src, const N: usize>(s: &mut S) {
    let data: [u8; N] = s.bytes();
    let len = s.upto(N);
    let d = &data[..len];
    let mut q = 1;
    while q < N {
        if q < len {
            s.assume(d[q] != PT_SDES);
        }
        q += 4;
    }
    if let Ok(mut c) = Compound::parse(d) {
        let mut offset = 0;
        let mut stopped = false;
        let mut calls = 0;
        while calls < N / 4 + 2 {
            let r = c.next();
            if stopped || offset >= len {
                assert!(r.is_none(), "yields after the end");
                stopped = true;
            } else {
                let l = 4 * (be16(d, offset + 2) as usize + 1);
                let want = Packet::parse(&d[offset..offset + l]);
                let got = r.expect("no item although tiles remain");
                assert!(got.is_ok() == want.is_ok());
                if let (Ok(a), Ok(b)) = (&got, &want) {
                    assert!(same_variant(a, b) && u32::from_be_bytes(a.header_data()) == u32::from_be_bytes(b.header_data()));
                }
                if got.is_err() {
                    stopped = true;
                }
                offset += l;
                forget((got, want));
            }
            calls += 1;
        }
        vcover!(offset >= 8, "two tiles iterated");
    }
}

/// Result of one iteration step, reduced to what can be compared: nothing / an error / a packet
/// identified by its variant and the memory it views.
fn fp(r: &Option<Result<Packet<'_>, RtcpParseError>>) -> (u8, usize, usize) {
    match r {
        None => (0, 0, 0),
        Some(Err(_)) => (1, 0, 0),
        Some(Ok(p)) => (2, p.length(), u32::from_be_bytes(p.header_data()) as usize),
    }
}

fn same(a: &Option<Result<Packet<'_>, RtcpParseError>>, b: &Option<Result<Packet<'_>, RtcpParseError>>) -> bool {
    fp(a) == fp(b)
        && match (a, b) {
            (Some(Err(x)), Some(Err(y))) => x == y,
            _ => true,
        }
}

/// The iterator methods derived from `next()` (`nth`, `count`, hence `skip`, `step_by`, ...)
/// iterate like `next()` does: from the state reached after `pre` plain steps, `nth(k)` returns
/// what the (k+1)-th further `next()` returns and leaves the same state behind, the following
/// `next()` agrees too, and `count()` is the number of items `next()` still yields.
/// The tiling is concrete per instance (`LAYOUT`: one hex digit per tile = its size in 32-bit
/// words, first tile in the lowest digit) and every tile has the concrete type 199 (unknown
/// packet), so that offsets and the dispatch in `Packet::parse` are decided during symbolic
/// execution and many steps stay affordable; the first byte of every tile (version, padding
/// bit, count: tiles that fail to parse included) and the bodies are symbolic.
pub fn derived<S: Src, const N: usize, const LAYOUT: u32, const K: usize, const COUNT: bool>(s: &mut S) {
    let mut data: [u8; N] = s.bytes();
    let mut off = 0;
    let mut l = LAYOUT;
    while l != 0 {
        let words = (l & 0xf) as usize;
        data[off + 1] = 199;
        data[off + 2] = 0;
        data[off + 3] = (words - 1) as u8;
        off += 4 * words;
        l >>= 4;
    }
    assert!(off == N, "HARNESS: layout does not fill the datagram");
    let d = &data[..N];
    let mut compared = false;
    if let (Ok(mut a), Ok(mut b)) = (Compound::parse(d), Compound::parse(d)) {
        compared = true;
        if COUNT {
            // count() after K plain steps against counting next() by hand
            let mut q = 0;
            while q < K {
                let (x, y) = (a.next(), b.next());
                assert!(same(&x, &y));
                forget((x, y));
                q += 1;
            }
            let mut n = 0;
            while let Some(x) = b.next() {
                forget(x);
                n += 1;
                assert!(n <= N / 4, "more items than tiles");
            }
            assert!(a.count() == n, "count() disagrees with next()");
        } else {
            // nth(K) against K + 1 calls of next()
            let got = a.nth(K);
            let mut want = None;
            let mut q = 0;
            let mut ended = false;
            while q <= K && !ended {
                want = b.next();
                if want.is_none() {
                    ended = true;
                } else if q < K {
                    forget(want.take());
                }
                q += 1;
            }
            assert!(same(&got, &want), "nth(k) disagrees with k + 1 calls of next()");
            assert!(verif::compound::state(&a) == verif::compound::state(&b), "nth(k) leaves a different state");
            let (x, y) = (a.next(), b.next());
            assert!(same(&x, &y), "next() after nth(k) disagrees");
            forget((got, want, x, y));
        }
    }
    vcover!(compared, "compared");
}

common::register! {
    q_derived_nth1 = derived::<_, 16, 0x1111, 1, false> => 6,
    q_derived_nth3 = derived::<_, 16, 0x1111, 3, false> => 6,
    q_derived_nth4 = derived::<_, 16, 0x1111, 4, false> => 6,
    q_derived_nth2_121 = derived::<_, 16, 0x121, 2, false> => 6,
    t_derived_count1_121 = derived::<_, 12, 0x12, 1, true> => 6,
    q_parse = parse::<_, 64> => 18,
    q_step = step::<_, 32, false> => 2,
    t_step_64 = step::<_, 64, false> => 2,
    q_step_sdes = step::<_, 8, true> => 2,
    t_parse = parse::<_, 128> => 34,
    t_step = step::<_, 128, false> => 2,
    t_step_sdes_12 = step::<_, 12, true> => 2,
    t_step_sdes = step::<_, 16, true> => 2,
    t_public = public::<_, 16> => 8,
}

#[cfg(not(kani))]
pub const REGISTRIES: &[&[(&str, fn(&mut common::R))]] = &[REGISTRY];
