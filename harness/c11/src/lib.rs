//! C11 — compound parsing tiles the datagram and iterates it faithfully.
//!
//! (a) `Compound::parse(d)` is Ok exactly when `d` is non-empty and the chain of length
//!     fields partitions it (reference tiling loop).
//! (b) one `next()` from every state reachable after a successful parse (hook
//!     `verif::compound`): finished => `None`, state unchanged; otherwise `Some(r)` with `r`
//!     what `Packet::parse` returns for the tile at the offset, the offset advanced by the
//!     tile length, finished iff `r` is an error or the end is reached, and the state is
//!     again reachable.  (a)+(b) give every clause of C11 for any number of tiles by induction
//!     on the number of calls.
//! (c) public API only, short datagrams, as a cross-check of the hook.
use common::refs::*;
use common::{forget, vcover, Src};
use rtcp_types::prelude::*;
use rtcp_types::*;

/// Reference tiling: length chain from `offset` partitions the rest of `d` exactly.
fn tiles_from(d: &[u8], mut offset: usize) -> bool {
    while offset < d.len() {
        if d.len() < offset + 4 {
            return false;
        }
        let l = 4 * (be16(d, offset + 2) as usize + 1);
        if d.len() < offset + l {
            return false;
        }
        offset += l;
    }
    offset == d.len()
}

pub fn parse<S: Src, const N: usize>(s: &mut S) {
    let data: [u8; N] = s.bytes();
    let len = s.upto(N);
    let d = &data[..len];
    let want = len > 0 && tiles_from(d, 0);
    match Compound::parse(d) {
        Ok(c) => {
            assert!(want, "accepted a datagram the length chain does not partition");
            assert!(verif::compound::state(&c) == (0, false));
            vcover!(len > 8, "accepted with several tiles");
        }
        Err(_) => {
            assert!(!want, "rejected a well-tiled datagram");
            vcover!(len > 8, "rejected");
        }
    }
}

fn same_variant(a: &Packet<'_>, b: &Packet<'_>) -> bool {
    core::mem::discriminant(a) == core::mem::discriminant(b)
}

pub fn step<S: Src, const N: usize, const SDES: bool>(s: &mut S) {
    let data: [u8; N] = s.bytes();
    let len = s.upto(N);
    let d = &data[..len];
    let offset = s.upto(N);
    let over = s.bool();
    s.assume(len > 0 && offset <= len && (offset < len || over));
    s.assume(tiles_from(d, offset));
    if offset + 2 <= len {
        s.assume((d[offset + 1] == PT_SDES) == SDES);
    }
    let mut c = verif::compound::from_state(d, offset, over);
    let r = c.next();
    let (o2, over2) = verif::compound::state(&c);
    if over {
        assert!(r.is_none(), "yields after the end");
        assert!(o2 == offset && over2, "finished iterator changed state");
        vcover!(true, "fused");
    } else {
        let l = 4 * (be16(d, offset + 2) as usize + 1);
        let tile = &d[offset..offset + l];
        let want = Packet::parse(tile);
        let got = r.expect("no item although tiles remain");
        match (&got, &want) {
            (Ok(a), Ok(b)) => {
                assert!(same_variant(a, b));
                assert!(u32::from_be_bytes(a.header_data()) == u32::from_be_bytes(b.header_data()) && a.length() == l);
                if let (Packet::Unknown(x), Packet::Unknown(y)) = (a, b) {
                    assert!(x.data().as_ptr() == tile.as_ptr() && y.data().len() == x.data().len());
                }
                if let (Packet::App(x), Packet::App(y)) = (a, b) {
                    assert!(x.data().as_ptr() == y.data().as_ptr() && x.data().len() == y.data().len());
                }
            }
            (Err(a), Err(b)) => assert!(a == b),
            _ => panic!("item differs from the generic parser's result for the tile"),
        }
        assert!(o2 == offset + l, "offset not advanced by the tile length");
        assert!(over2 == (got.is_err() || o2 >= len), "wrong end-of-iteration flag");
        assert!(tiles_from(d, o2) && o2 <= len, "left the reachable states");
        vcover!(got.is_ok() && !over2, "tile parsed, more follow");
        vcover!(got.is_err(), "tile rejected: iteration stops");
        vcover!(got.is_ok() && over2, "last tile");
        forget((got, want));
    }
}

/// Public API only: parse, then `next()` repeatedly; item `k` is the generic parser's result
/// for tile `k`, iteration stops after the first error or the last tile and stays stopped.
pub fn public<S: Src, const N: usize>(s: &mut S) {
    let data: [u8; N] = s.bytes();
    let len = s.upto(N);
    let d = &data[..len];
    let mut q = 1;
    while q < N {
        if q < len {
            s.assume(d[q] != PT_SDES);
        }
        q += 4;
    }
    if let Ok(mut c) = Compound::parse(d) {
        let mut offset = 0;
        let mut stopped = false;
        let mut calls = 0;
        while calls < N / 4 + 2 {
            let r = c.next();
            if stopped || offset >= len {
                assert!(r.is_none(), "yields after the end");
                stopped = true;
            } else {
                let l = 4 * (be16(d, offset + 2) as usize + 1);
                let want = Packet::parse(&d[offset..offset + l]);
                let got = r.expect("no item although tiles remain");
                assert!(got.is_ok() == want.is_ok());
                if let (Ok(a), Ok(b)) = (&got, &want) {
                    assert!(same_variant(a, b) && u32::from_be_bytes(a.header_data()) == u32::from_be_bytes(b.header_data()));
                }
                if got.is_err() {
                    stopped = true;
                }
                offset += l;
                forget((got, want));
            }
            calls += 1;
        }
        vcover!(offset >= 8, "two tiles iterated");
    }
}

common::register! {
    q_parse = parse::<_, 64> => 18,
    q_step = step::<_, 32, false> => 2,
    t_step_64 = step::<_, 64, false> => 2,
    q_step_sdes = step::<_, 8, true> => 2,
    t_parse = parse::<_, 128> => 34,
    t_step = step::<_, 128, false> => 2,
    t_step_sdes_12 = step::<_, 12, true> => 2,
    t_step_sdes = step::<_, 16, true> => 2,
    t_public = public::<_, 16> => 8,
}

#[cfg(not(kani))]
pub const REGISTRIES: &[&[(&str, fn(&mut common::R))]] = &[REGISTRY];
