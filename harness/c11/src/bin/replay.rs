#[cfg(not(kani))]
fn main() {
    common::replay_main_multi(c11::REGISTRIES)
}
#[cfg(kani)]
fn main() {}
