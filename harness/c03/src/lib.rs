//! C03 — SDES packets survive a build-then-parse round trip.
use common::cfg::*;
use common::shapes::draw_sdes;
use common::{forget, vcover, Src};
use rtcp_types::prelude::*;
use rtcp_types::*;

/// Parsed item equals the configured one: type, value bytes, prefix bytes for PRIV.
fn same_item<S: Src, const L: usize>(s: &mut S, p: &SdesItem<'_>, c: &ItemCfg<L>) {
    let j = s.upto(if L > 0 { L - 1 } else { 0 });
    assert!(p.type_() == c.type_);
    let v = p.value();
    assert!(v.len() == c.value.len, "value length differs");
    if j < v.len() {
        assert!(v[j] == c.value.bytes[j], "value byte differs");
    }
    if c.is_priv() {
        let pre = p.priv_prefix();
        assert!(pre.len() == c.prefix.len && p.priv_prefix_len() as usize == c.prefix.len);
        if j < pre.len() {
            assert!(pre[j] == c.prefix.bytes[j], "prefix byte differs");
        }
    }
}

fn roundtrip<S: Src, const NC: usize, const NI: usize, const L: usize, const B: usize>(
    s: &mut S,
    c: &SdesCfg<NC, NI, L>,
) {
    roundtrip_with::<S, NC, NI, L, B>(s, c, false)
}

/// `rejected`: the instance is rejected by construction (a text beyond its limit), so the
/// acceptance covers are not demanded of it.
fn roundtrip_with<S: Src, const NC: usize, const NI: usize, const L: usize, const B: usize>(
    s: &mut S,
    c: &SdesCfg<NC, NI, L>,
    rejected: bool,
) {
    let kc = s.upto(if NC > 0 { NC - 1 } else { 0 });
    let ki = s.upto(if NI > 0 { NI - 1 } else { 0 });
    let mut buf = [0xA5u8; B];
    let b = c.builder();
    let r = b.write_into(&mut buf);
    forget(b);
    let mut any_items = false;
    let mut q = 0;
    while q < NC {
        any_items = any_items || c.chunks[q].n > 0;
        q += 1;
    }
    let mut compared = false;
    let mut accepted = false;
    match r {
        Ok(n) => {
            assert!(n + 4 <= B, "HARNESS: buffer array too small");
            let p = Sdes::parse(&buf[..n]).expect("own parser rejects the built SDES");
            assert!(p.padding() == if c.padding > 0 { Some(c.padding) } else { None });
            assert!(p.chunks().count() == NC, "chunk count differs");
            if NC > 0 {
                let pc = p.chunks().nth(kc).expect("chunk missing");
                let cc = &c.chunks[kc];
                assert!(pc.ssrc() == cc.ssrc, "chunk SSRC differs");
                assert!(pc.items().count() == cc.n, "item count differs");
                if ki < cc.n {
                    let pi = pc.items().nth(ki).expect("item missing");
                    same_item(s, pi, &cc.items[ki]);
                    compared = true;
                }
            }
            accepted = true;
            forget(p);
        }
        Err(e) => {
            assert!(!c.valid(), "builder rejected a legal SDES");
            assert!(!matches!(e, RtcpWriteError::OutputTooSmall(_)));
        }
    }
    vcover!(rejected || (accepted && (!any_items || compared)), "an item compared");
    vcover!(rejected || (accepted && c.padding > 0), "padded SDES round trip");
    vcover!(!rejected || !accepted, "rejected by construction");
}

pub fn sdes<S: Src, const NC: usize, const NI: usize, const L: usize, const B: usize>(s: &mut S, counts: [usize; NC], maxpad: u8) {
    let c = draw_sdes::<S, NC, NI, L>(s, counts);
    s.assume(c.padding <= maxpad);
    roundtrip::<S, NC, NI, L, B>(s, &c);
}

pub fn s_0<S: Src>(s: &mut S) { sdes::<S, 0, 1, 1, 32>(s, [], 12) }
pub fn s_0_anypad<S: Src>(s: &mut S) { sdes::<S, 0, 1, 1, 272>(s, [], 252) }
pub fn s_1x0<S: Src>(s: &mut S) { sdes::<S, 1, 1, 1, 24>(s, [0], 8) }
pub fn s_1x1<S: Src>(s: &mut S) { sdes::<S, 1, 1, 2, 24>(s, [1], 4) }
pub fn s_1x1_l3<S: Src>(s: &mut S) { sdes::<S, 1, 1, 3, 32>(s, [1], 8) }
pub fn s_1x2<S: Src>(s: &mut S) { sdes::<S, 1, 2, 3, 40>(s, [2], 8) }
pub fn s_2x1<S: Src>(s: &mut S) { sdes::<S, 2, 1, 3, 48>(s, [1, 1], 8) }
pub fn s_2x0<S: Src>(s: &mut S) { sdes::<S, 2, 1, 1, 28>(s, [0, 0], 4) }
pub fn s_2x21<S: Src>(s: &mut S) { sdes::<S, 2, 2, 3, 64>(s, [2, 1], 8) }
pub fn s_2x01<S: Src>(s: &mut S) { sdes::<S, 2, 1, 5, 48>(s, [0, 1], 8) }
pub fn s_3x1<S: Src>(s: &mut S) { sdes::<S, 3, 1, 3, 64>(s, [1, 1, 1], 8) }
pub fn s_1x3<S: Src>(s: &mut S) { sdes::<S, 1, 3, 3, 56>(s, [3], 8) }
pub fn s_1x1_40<S: Src>(s: &mut S) { sdes::<S, 1, 1, 40, 112>(s, [1], 8) }

/// One item of a concrete length at the 255/254 limits.
pub fn fixed<S: Src, const LEN: usize, const PLEN: usize>(s: &mut S, priv_: bool) {
    let t = s.u8();
    s.assume(t != 0 && (t == PRIV) == priv_);
    let value = Text::<256>::fixed::<S, 2>(s, LEN);
    let mut prefix = Blob { len: PLEN, bytes: [0x70; 256] };
    prefix.bytes[0] = s.u8();
    let item = ItemCfg { type_: t, value, prefix };
    let chunk = ChunkCfg { ssrc: s.u32(), n: 1, items: [item] };
    let c = SdesCfg::<1, 1, 256> { padding: s.u8(), chunks: [chunk] };
    s.assume(c.padding <= 8);
    let rejected = if priv_ { PLEN + 1 + LEN > 255 } else { LEN > 255 };
    roundtrip_with::<S, 1, 1, 256, 288>(s, &c, rejected);
}

pub fn f_255<S: Src>(s: &mut S) { fixed::<S, 255, 0>(s, false) }
pub fn f_254<S: Src>(s: &mut S) { fixed::<S, 254, 0>(s, false) }
pub fn f_253<S: Src>(s: &mut S) { fixed::<S, 253, 0>(s, false) }
pub fn f_252<S: Src>(s: &mut S) { fixed::<S, 252, 0>(s, false) }
pub fn f_256<S: Src>(s: &mut S) { fixed::<S, 256, 0>(s, false) }
pub fn p_254<S: Src>(s: &mut S) { fixed::<S, 200, 54>(s, true) }
pub fn p_253<S: Src>(s: &mut S) { fixed::<S, 0, 253>(s, true) }
pub fn p_254b<S: Src>(s: &mut S) { fixed::<S, 254, 0>(s, true) }
pub fn p_255<S: Src>(s: &mut S) { fixed::<S, 100, 155>(s, true) }
/// The longest prefix a PRIV item can carry (254 bytes, empty value).
pub fn p_254c<S: Src>(s: &mut S) { fixed::<S, 0, 254>(s, true) }

/// Owned items (`add_item_owned`, `into_owned`) round-trip like borrowed ones.
pub fn owned<S: Src>(s: &mut S) {
    let it = common::shapes::draw_item::<S, 3>(s);
    let ssrc = s.u32();
    let b = Sdes::builder().add_chunk(SdesChunk::builder(ssrc).add_item_owned(it.builder()));
    let mut buf = [0xA5u8; 32];
    let r = b.write_into(&mut buf);
    forget(b);
    if let Ok(n) = r {
        let p = Sdes::parse(&buf[..n]).expect("own parser rejects the built SDES");
        let pc = p.chunks().next().expect("chunk missing");
        assert!(pc.ssrc() == ssrc && pc.items().count() == 1);
        same_item(s, pc.items().next().unwrap(), &it);
        vcover!(it.is_priv(), "owned PRIV item");
        forget(p);
    }
}

/// Owned items with concrete lengths (value `VL`, prefix `PL` bytes) and symbolic contents and
/// type: the symbolic-length instance `owned` is thorough-only (copies of symbolic length).
pub fn owned_fixed<S: Src, const VL: usize, const PL: usize, const INTO: bool>(s: &mut S) {
    let mut it = common::shapes::draw_item::<S, 3>(s);
    it.value.len = VL;
    it.prefix.len = PL;
    let ssrc = s.u32();
    let chunk = if INTO {
        SdesChunk::builder(ssrc).add_item(it.builder().into_owned())
    } else {
        SdesChunk::builder(ssrc).add_item_owned(it.builder())
    };
    let b = Sdes::builder().add_chunk(chunk);
    let mut buf = [0xA5u8; 32];
    let r = b.write_into(&mut buf);
    forget(b);
    let mut done = false;
    if let Ok(n) = r {
        let p = Sdes::parse(&buf[..n]).expect("own parser rejects the built SDES");
        let pc = p.chunks().next().expect("chunk missing");
        assert!(pc.ssrc() == ssrc && pc.items().count() == 1);
        same_item(s, pc.items().next().unwrap(), &it);
        done = it.is_priv();
        forget(p);
    }
    vcover!(done, "owned PRIV item");
}

common::register! {
    q_owned_12 = owned_fixed::<_, 1, 2, false> => 2,
    q_into_owned_21 = owned_fixed::<_, 2, 1, true> => 2,
    q_0 = s_0 => 2,
    q_1x0 = s_1x0 => 2,
    q_1x1 = s_1x1 => 2,
    q_2x0 = s_2x0 => 3,
    t_0_anypad = s_0_anypad => 2,
    t_1x1_l3 = s_1x1_l3 => 2,
    t_1x2 = s_1x2 => 3,
    t_2x1 = s_2x1 => 3,
    t_owned = owned => 2,
    q_255 = f_255 => 2,
    t_p254 = p_254 => 2,
    t_2x21 = s_2x21 => 3,
    t_2x01 = s_2x01 => 3,
    t_3x1 = s_3x1 => 4,
    t_1x3 = s_1x3 => 4,
    t_1x1_40 = s_1x1_40 => 2,
    t_254 = f_254 => 2,
    t_253 = f_253 => 2,
    t_252 = f_252 => 2,
    t_256 = f_256 => 2,
    q_p253 = p_253 => 2,
    q_p254c = p_254c => 2,
    t_p254b = p_254b => 2,
    t_p255 = p_255 => 2,
}

#[cfg(not(kani))]
pub const REGISTRIES: &[&[(&str, fn(&mut common::R))]] = &[REGISTRY];
