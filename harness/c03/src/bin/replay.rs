#[cfg(not(kani))]
fn main() {
    common::replay_main_multi(c03::REGISTRIES)
}
#[cfg(kani)]
fn main() {}
