//! C05 — feedback packets and their FCI survive a build-then-parse round trip.
use common::cfg::*;
use common::{forget, kf, vcover, Src};
use rtcp_types::prelude::*;
use rtcp_types::*;

/// Builds the feedback packet around `fci` into `buf`; returns the written size.
fn build<'a, const B: usize>(
    c: &FbCfg,
    fci: &'a dyn FciBuilder<'a>,
    buf: &mut [u8; B],
) -> Result<usize, RtcpWriteError> {
    if c.transport {
        TransportFeedback::builder(fci).sender_ssrc(c.sender).media_ssrc(c.media).padding(c.padding).write_into(buf)
    } else {
        PayloadFeedback::builder(fci).sender_ssrc(c.sender).media_ssrc(c.media).padding(c.padding).write_into(buf)
    }
}

fn want_padding(c: &FbCfg) -> Option<u8> {
    if c.padding > 0 {
        Some(c.padding)
    } else {
        None
    }
}

macro_rules! parse_back {
    ($ty:ident, $c:expr, $fmt:expr, $buf:expr, $n:expr) => {{
        let p = $ty::parse(&$buf[..$n]).expect("own parser rejects the built feedback packet");
        assert!(p.sender_ssrc() == $c.sender);
        assert!(p.media_ssrc() == $c.media);
        assert!(p.count() == $fmt);
        assert!(p.padding() == want_padding(&$c));
        p
    }};
}

pub fn pli<S: Src>(s: &mut S) {
    let c = FbCfg::draw(s, false);
    let f = Pli::builder();
    let mut buf = [0xA5u8; 272];
    match build(&c, &f, &mut buf) {
        Ok(n) => {
            let p = parse_back!(PayloadFeedback, c, FMT_PLI, buf, n);
            let r = p.parse_fci::<Pli>();
            assert!(r.is_ok(), "PLI body does not decode as empty");
            vcover!(c.padding > 0, "padded PLI");
        }
        Err(_) => assert!(!padding_ok(c.padding), "builder rejected a legal PLI"),
    }
}

pub fn sli<S: Src, const N: usize, const B: usize>(s: &mut S) {
    let c = FbCfg::draw(s, false);
    s.assume(c.padding <= 12);
    let e = SliCfg::<N>::draw(s);
    let k = s.upto(if N > 0 { N - 1 } else { 0 });
    let f = e.builder();
    let mut buf = [0xA5u8; B];
    let r = build(&c, &f, &mut buf);
    forget(f);
    match r {
        Ok(n) => {
            let p = parse_back!(PayloadFeedback, c, FMT_SLI, buf, n);
            let sli = p.parse_fci::<Sli>().expect("SLI FCI does not decode");
            // the same entries in order
            let mut it = sli.lost_macroblocks();
            let mut i = 0;
            let mut at_k = None;
            while i < N {
                let x = it.next().expect("SLI entry missing");
                if i == k {
                    at_k = Some(verif::sli::fields(&x));
                }
                i += 1;
            }
            assert!(it.next().is_none(), "extra SLI entry");
            if N > 0 {
                assert!(at_k == Some(e.entries[k]));
            }
            vcover!(c.padding > 0, "padded SLI");
        }
        Err(_) => assert!(!padding_ok(c.padding), "builder rejected a legal SLI"),
    }
}

/// Bit `q` (0 = first on the wire) of a byte string.
fn bit(bytes: &[u8], q: usize) -> bool {
    bytes[q / 8] & (0x80 >> (q % 8)) != 0
}

pub fn rpsi<S: Src, const L: usize, const B: usize>(s: &mut S) {
    let c = FbCfg::draw(s, false);
    s.assume(c.padding <= 12);
    let bits = Blob::<L>::draw(s, L);
    let e = RpsiCfg::draw_with(s, bits);
    let q = s.upto(8 * L);
    let f = e.builder();
    let mut buf = [0xA5u8; B];
    match build(&c, &f, &mut buf) {
        Ok(n) => {
            let p = parse_back!(PayloadFeedback, c, FMT_RPSI, buf, n);
            let r = p.parse_fci::<Rpsi>().expect("RPSI FCI does not decode");
            assert!(r.payload_type() == e.payload_type);
            // the same bit string bit for bit: 8*len - overrun bits
            let (bytes, ignore) = r.bit_string();
            assert!(ignore < 8);
            assert!(8 * bytes.len() - ignore == e.nbits(), "bit string length differs");
            if q < e.nbits() {
                assert!(bit(bytes, q) == bit(&e.bits.bytes, q), "bit differs");
            }
            vcover!(e.overrun == 8, "a whole byte ignored");
            vcover!(e.bits.len % 4 == 2 && e.overrun > 0, "string ends on a word boundary");
            vcover!(c.padding > 0 && e.bits.len > 0, "padded RPSI");
        }
        Err(_) => assert!(!padding_ok(c.padding) || !e.valid(), "builder rejected a legal RPSI"),
    }
}

/// RPSI built through the owned-data path, payload type set before the conversion.
pub fn rpsi_owned<S: Src>(s: &mut S) {
    let c = FbCfg::draw(s, false);
    s.assume(c.padding <= 8);
    let bits = Blob::<6>::draw(s, 6);
    let e = RpsiCfg::draw_with(s, bits);
    let q = s.upto(48);
    let f = Rpsi::builder().payload_type(e.payload_type).native_data_owned(e.bits.as_bytes(), e.overrun);
    let mut buf = [0xA5u8; 32];
    match build(&c, &f, &mut buf) {
        Ok(n) => {
            let p = parse_back!(PayloadFeedback, c, FMT_RPSI, buf, n);
            let r = p.parse_fci::<Rpsi>().expect("RPSI FCI does not decode");
            assert!(r.payload_type() == e.payload_type, "payload type lost");
            let (bytes, ignore) = r.bit_string();
            assert!(8 * bytes.len() - ignore == e.nbits(), "bit string length differs");
            if q < e.nbits() {
                assert!(bit(bytes, q) == bit(&e.bits.bytes, q), "bit differs");
            }
            vcover!(e.payload_type > 0 && e.bits.len > 0, "owned data with a payload type");
        }
        Err(_) => assert!(!padding_ok(c.padding) || !e.valid(), "builder rejected a legal RPSI"),
    }
}

/// NACK through the real builder with `N` symbolic sequence numbers: decoding yields exactly
/// the set, ascending, each once.
pub fn nack<S: Src, const N: usize, const B: usize>(s: &mut S) {
    let c = FbCfg::draw(s, true);
    s.assume(c.padding <= 8);
    let mut seqs = [0u16; N];
    let mut f = Nack::builder();
    let mut i = 0;
    while i < N {
        seqs[i] = s.u16();
        f = f.add_rtp_sequence(seqs[i]);
        i += 1;
    }
    let mut buf = [0xA5u8; B];
    let r = build(&c, &f, &mut buf);
    forget(f);
    match r {
        Ok(n) => {
            let p = parse_back!(TransportFeedback, c, FMT_NACK, buf, n);
            let nack = p.parse_fci::<Nack>().expect("NACK FCI does not decode");
            let mut it = nack.entries();
            let mut prev: Option<u16> = None;
            let mut seen = [false; N];
            let mut j = 0;
            while j <= N {
                match it.next() {
                    Some(v) => {
                        assert!(prev.map_or(true, |p| v > p), "not strictly ascending");
                        prev = Some(v);
                        let mut m = 0;
                        let mut known = false;
                        while m < N {
                            if seqs[m] == v {
                                seen[m] = true;
                                known = true;
                            }
                            m += 1;
                        }
                        assert!(known, "a sequence number that was never added");
                    }
                    None => break,
                }
                j += 1;
            }
            assert!(j <= N, "more values than were added");
            let mut m = 0;
            while m < N {
                assert!(seen[m], "an added sequence number is missing");
                m += 1;
            }
            vcover!(N < 2 || seqs[0] == seqs[1], "duplicate adds");
            vcover!(c.padding > 0, "padded NACK");
        }
        Err(_) => assert!(!padding_ok(c.padding), "builder rejected a legal NACK"),
    }
}

/// NACK encoder unit (hook) composed with the crate's decoder: `N` symbolic strictly
/// ascending values -> words -> `Nack::entries()` gives the values back in order.
pub fn nack_unit<S: Src, const N: usize>(s: &mut S) {
    let n = s.upto(N);
    let mut seqs = [0u16; N];
    let mut i = 0;
    while i < N {
        seqs[i] = s.u16();
        if i > 0 && i < n {
            s.assume(seqs[i] > seqs[i - 1]);
        }
        i += 1;
    }
    let k = s.upto(N);
    let mut fci = [0u8; 40];
    let mut it = verif::nack::encode_entries(seqs.into_iter().take(n));
    let mut len = 0;
    let mut j = 0;
    while j < N {
        if let Some(w) = it.next() {
            fci[len] = w[0];
            fci[len + 1] = w[1];
            fci[len + 2] = w[2];
            fci[len + 3] = w[3];
            len += 4;
        }
        j += 1;
    }
    assert!(it.next().is_none());
    let nack = <Nack as FciParser>::parse(&fci[..len]).unwrap();
    let got_k = nack.entries().nth(k);
    assert!(got_k == if k < n { Some(seqs[k]) } else { None });
    vcover!(len >= 8, "two words");
}

pub fn fir<S: Src, const SYMBOLIC: bool>(s: &mut S) {
    let c = FbCfg::draw(s, false);
    s.assume(c.padding <= 8);
    let e0 = (s.u32(), s.u8());
    let map: [(u32, u8); 3] = if SYMBOLIC { [e0, e0, e0] } else { [(1, 9), (0xffff_fffe, 2), (77, 3)] };
    let n = if SYMBOLIC { 1 } else { 3 };
    let f = if SYMBOLIC {
        Fir::builder().add_ssrc(e0.0, e0.1)
    } else {
        Fir::builder().add_ssrc(1, 1).add_ssrc(0xffff_fffe, 2).add_ssrc(1, 9).add_ssrc(77, 3)
    };
    let mut buf = [0xA5u8; 56];
    let r = build(&c, &f, &mut buf);
    forget(f);
    match r {
        Ok(len) => {
            let p = parse_back!(PayloadFeedback, c, FMT_FIR, buf, len);
            let fir = p.parse_fci::<Fir>().expect("FIR FCI does not decode");
            let mut it = fir.entries();
            let mut seen = [false; 3];
            let mut j = 0;
            while j < 4 {
                if let Some(e) = it.next() {
                    let mut m = 0;
                    let mut known = false;
                    while m < 3 {
                        if m < n && map[m].0 == e.ssrc() {
                            assert!(map[m].1 == e.sequence(), "sequence differs");
                            assert!(!seen[m], "SSRC decoded twice");
                            seen[m] = true;
                            known = true;
                        }
                        m += 1;
                    }
                    assert!(known, "an SSRC that was never added");
                }
                j += 1;
            }
            let mut m = 0;
            while m < 3 {
                assert!(m >= n || seen[m], "an added SSRC is missing");
                m += 1;
            }
            vcover!(c.padding > 0, "padded FIR");
        }
        Err(_) => assert!(!padding_ok(c.padding), "builder rejected a legal FIR"),
    }
}

/// Zero-entry SLI: the builder accepts it, the crate's own SLI parser demands one entry.
/// Listed known finding `c05_empty_sli`: decided in the twin `kf_c05_empty_sli`.
pub fn sli_empty<S: Src>(s: &mut S) {
    vcover!(true, "reached");
    if kf::C05_EMPTY_SLI {
        return;
    }
    sli::<S, 0, 28>(s)
}

/// Zero-entry FIR, likewise (`c05_empty_fir`).
pub fn fir_empty<S: Src>(s: &mut S) {
    let c = FbCfg::draw(s, false);
    s.assume(c.padding <= 8);
    let f = Fir::builder();
    let mut buf = [0xA5u8; 28];
    let r = build(&c, &f, &mut buf);
    forget(f);
    match r {
        Ok(n) => {
            let p = parse_back!(PayloadFeedback, c, FMT_FIR, buf, n);
            let fir = p.parse_fci::<Fir>().expect("FIR FCI does not decode");
            assert!(fir.entries().next().is_none());
            vcover!(true, "empty FIR round trip");
        }
        Err(_) => assert!(!padding_ok(c.padding), "builder rejected a legal FIR"),
    }
}

pub fn fir_empty_main<S: Src>(s: &mut S) {
    vcover!(true, "reached");
    if kf::C05_EMPTY_FIR {
        return;
    }
    fir_empty(s)
}

common::register! {
    q_sli_empty = sli_empty => 2,
    kf_c05_empty_sli = sli::<_, 0, 28> => 2,
    q_pli = pli => 2,
    q_sli_1 = sli::<_, 1, 32> => 3,
    q_sli_3 = sli::<_, 3, 40> => 5,
    q_rpsi = rpsi::<_, 8, 40> => 2,
    q_rpsi_owned = rpsi_owned => 2,
    q_nack_1 = nack::<_, 1, 32> => 3,
    q_nack_unit_4 = nack_unit::<_, 4> => 6,
    t_nack_unit_5 = nack_unit::<_, 5> => 7,
    t_sli_2 = sli::<_, 2, 36> => 4,
    t_rpsi_long = rpsi::<_, 64, 96> => 2,
    t_nack_0 = nack::<_, 0, 28> => 2,
    t_nack_2 = nack::<_, 2, 36> => 4,
    t_nack_3 = nack::<_, 3, 36> => 5,
    t_nack_unit_7 = nack_unit::<_, 7> => 9,
}

/// The FIR map has one sequence per SSRC: adding the same SSRC again replaces its sequence
/// (`add_ssrc` documents the update); the packet carries exactly {ssrc -> last sequence}.
pub fn fir_readd<S: Src>(s: &mut S) {
    let ssrc = 0x1234_5678u32;
    let (s1, s2) = (s.u8(), s.u8());
    let f = Fir::builder().add_ssrc(ssrc, s1).add_ssrc(ssrc, s2);
    let b = PayloadFeedback::builder(&f).sender_ssrc(1).media_ssrc(0);
    let mut buf = [0xA5u8; 24];
    let n = b.write_into(&mut buf).expect("FIR feedback rejected");
    assert!(n == 20, "re-adding an SSRC must not add an entry");
    let p = PayloadFeedback::parse(&buf[..n]).expect("own parser rejects the built FIR");
    let fir = p.parse_fci::<Fir>().expect("FIR FCI does not decode");
    let mut it = fir.entries();
    let e = it.next().expect("entry missing");
    assert!(e.ssrc() == ssrc && e.sequence() == s2, "FIR map must carry the last sequence of the SSRC");
    assert!(it.next().is_none());
    vcover!(s1 != s2, "sequence replaced");
    common::forget(b);
    common::forget(f);
}

common::register_hashmap! {
    q_fir_readd = fir_readd => 4,
    q_fir_empty = fir_empty_main => 3,
    kf_c05_empty_fir = fir_empty => 3,
    q_fir_1 = fir::<_, true> => 5,
    t_fir_fixed = fir::<_, false> => 6,
}

#[cfg(not(kani))]
pub const REGISTRIES: &[&[(&str, fn(&mut common::R))]] = &[REGISTRY, REGISTRY_HASHMAP];
