#[cfg(not(kani))]
fn main() {
    common::replay_main_multi(c05::REGISTRIES)
}
#[cfg(kani)]
fn main() {}
