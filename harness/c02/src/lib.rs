//! C02 — sender/receiver reports survive a build-then-parse round trip.
use common::cfg::*;
use common::{vcover, Src};
use rtcp_types::prelude::*;
use rtcp_types::*;

fn same_block(p: &ReportBlock<'_>, c: &RbCfg) {
    assert!(p.ssrc() == c.ssrc);
    assert!(p.fraction_lost() == c.fraction);
    assert!(p.cumulative_lost() == c.cumulative);
    assert!(p.extended_sequence_number() == c.ext_seq);
    assert!(p.interarrival_jitter() == c.jitter);
    assert!(p.last_sender_report_timestamp() == c.lsr);
    assert!(p.delay_since_last_sender_report_timestamp() == c.dlsr);
}

/// Builder error is allowed only for the documented reasons.
fn rejection_is_justified(e: &RtcpWriteError, valid: bool) {
    assert!(!valid, "builder rejected a legal report");
    assert!(!matches!(e, RtcpWriteError::OutputTooSmall(_)));
}

pub fn sr<S: Src, const NB: usize, const B: usize>(s: &mut S) {
    let c = SrCfg::<NB>::draw(s);
    let k = s.upto(if NB > 0 { NB - 1 } else { 0 });
    let mut buf = [0xA5u8; B];
    let mut seen = (false, false);
    match c.builder().write_into(&mut buf) {
        Ok(n) => {
            let p = SenderReport::parse(&buf[..n]).expect("own parser rejects the built SR");
            assert!(p.ssrc() == c.ssrc);
            assert!(p.ntp_timestamp() == c.ntp);
            assert!(p.rtp_timestamp() == c.rtp);
            assert!(p.packet_count() == c.packets);
            assert!(p.octet_count() == c.octets);
            assert!(p.padding() == if c.padding > 0 { Some(c.padding) } else { None });
            assert!(p.n_reports() as usize == NB);
            assert!(p.report_blocks().count() == NB);
            if NB > 0 {
                let b = p.report_blocks().nth(k).expect("block missing");
                same_block(&b, &c.blocks[k]);
            } else {
                assert!(p.report_blocks().next().is_none());
            }
            seen = (c.padding == 252, c.padding == 0);
        }
        Err(e) => rejection_is_justified(&e, c.valid()),
    }
    vcover!(NB > 31 || seen.0, "maximum padding");
    vcover!(NB > 31 || seen.1, "no padding");
}

pub fn rr<S: Src, const NB: usize, const B: usize>(s: &mut S) {
    let c = RrCfg::<NB>::draw(s);
    let k = s.upto(if NB > 0 { NB - 1 } else { 0 });
    let mut buf = [0xA5u8; B];
    let mut seen = (false, false);
    match c.builder().write_into(&mut buf) {
        Ok(n) => {
            let p = ReceiverReport::parse(&buf[..n]).expect("own parser rejects the built RR");
            assert!(p.ssrc() == c.ssrc);
            assert!(p.padding() == if c.padding > 0 { Some(c.padding) } else { None });
            assert!(p.n_reports() as usize == NB);
            assert!(p.report_blocks().count() == NB);
            if NB > 0 {
                let b = p.report_blocks().nth(k).expect("block missing");
                same_block(&b, &c.blocks[k]);
            } else {
                assert!(p.report_blocks().next().is_none());
            }
            seen = (c.padding == 252, c.padding == 0);
        }
        Err(e) => rejection_is_justified(&e, c.valid()),
    }
    vcover!(NB > 31 || seen.0, "maximum padding");
    vcover!(NB > 31 || seen.1, "no padding");
}

/// The same through the generic parser and the compound iterator's entry point.
pub fn sr_generic<S: Src>(s: &mut S) {
    let c = SrCfg::<1>::draw(s);
    let mut buf = [0xA5u8; 308];
    if let Ok(n) = c.builder().write_into(&mut buf) {
        match Packet::parse(&buf[..n]) {
            Ok(Packet::Sr(p)) => {
                assert!(p.ssrc() == c.ssrc && p.ntp_timestamp() == c.ntp);
                let b = p.report_blocks().next().expect("block missing");
                same_block(&b, &c.blocks[0]);
                vcover!(true, "SR through the generic parser");
            }
            _ => panic!("generic parser does not yield the SR"),
        }
    }
}

common::register! {
    q_sr_0 = sr::<_, 0, 284> => 2,
    q_sr_1 = sr::<_, 1, 308> => 3,
    q_sr_2 = sr::<_, 2, 332> => 4,
    q_rr_0 = rr::<_, 0, 264> => 2,
    q_rr_1 = rr::<_, 1, 288> => 3,
    q_rr_2 = rr::<_, 2, 312> => 4,
    q_sr_generic = sr_generic => 3,
    t_sr_3 = sr::<_, 3, 356> => 5,
    t_sr_31 = sr::<_, 31, 1028> => 33,
    t_sr_32 = sr::<_, 32, 1052> => 34,
    t_rr_3 = rr::<_, 3, 336> => 5,
    q_rr_31 = rr::<_, 31, 1008> => 33,
    t_rr_32 = rr::<_, 32, 1032> => 34,
}

#[cfg(not(kani))]
pub const REGISTRIES: &[&[(&str, fn(&mut common::R))]] = &[REGISTRY];
