#[cfg(not(kani))]
fn main() {
    common::replay_main_multi(c02::REGISTRIES)
}
#[cfg(kani)]
fn main() {}
