#[cfg(not(kani))]
fn main() {
    common::replay_main_multi(c20::REGISTRIES)
}
#[cfg(kani)]
fn main() {}
