//! C20 — builder output depends on what was configured, not on how.
//!
//! Histories as data: `K` steps, each a symbolic choice among the builder's setters with
//! symbolic arguments, while a shadow record keeps "last value per setter, lists in insertion
//! order".  A canonical builder is then made from the shadow record in a fixed order.  Both
//! must announce the same size (or the same error) and write the same bytes (one symbolic
//! index).  One query covers every call sequence of length `K`, including repeats.
use common::cfg::*;
use common::{forget, vcover, Src};
use rtcp_types::prelude::*;
use rtcp_types::*;

fn same_output<S: Src, A: RtcpPacketWriter, B: RtcpPacketWriter, const N: usize>(s: &mut S, a: &A, b: &B) {
    let i = s.upto(N - 1);
    assert!(a.calculate_size() == b.calculate_size(), "size depends on the call history");
    let (mut x, mut y) = ([0x5Au8; N], [0x5Au8; N]);
    let (rx, ry) = (a.write_into(&mut x), b.write_into(&mut y));
    assert!(rx == ry, "write result depends on the call history");
    if let Ok(n) = rx {
        assert!(n + 4 <= N, "HARNESS: buffer array too small");
        if i < n {
            assert!(x[i] == y[i], "bytes depend on the call history");
        }
        vcover!(i + 1 == n, "last byte compared");
    }
    assert!(a.get_padding() == b.get_padding());
}

// ------------------------------------------------------------------ BYE

pub fn bye<S: Src, const K: usize>(s: &mut S) {
    let ra = Text::<10>::draw(s, 10);
    let rb = Text::<10>::draw(s, 10);
    let mut b = Bye::builder();
    // shadow record
    let mut padding = 0u8;
    let mut sources = [0u32; K];
    let mut ns = 0;
    let mut reason: Option<bool> = None; // which text was set last
    let mut step = 0;
    while step < K {
        let choice = s.upto(4);
        let x = s.u8();
        let y = s.u32();
        s.assume(x <= 12);
        b = match choice {
            0 => {
                padding = x;
                b.padding(x)
            }
            1 => {
                sources[ns] = y;
                ns += 1;
                b.add_source(y)
            }
            2 => {
                reason = Some(false);
                b.reason(ra.as_str())
            }
            3 => {
                reason = Some(true);
                b.reason(rb.as_str())
            }
            _ => {
                // owned variant must keep what was set before
                reason = Some(true);
                b.reason_owned(rb.as_str())
            }
        };
        step += 1;
    }
    // canonical order: padding, sources, reason
    let mut c = Bye::builder().padding(padding);
    let mut q = 0;
    while q < K {
        if q < ns {
            c = c.add_source(sources[q]);
        }
        q += 1;
    }
    if let Some(which) = reason {
        c = c.reason(if which { rb.as_str() } else { ra.as_str() });
    }
    same_output::<S, _, _, 64>(s, &b, &c);
    vcover!(ns >= 2, "two sources added");
    vcover!(reason == Some(true) && padding > 0 && ns > 0, "owned reason after other setters");
    forget((b, c));
}

// ------------------------------------------------------------------ SR / RR

/// SR scalar setters in any order, repeats keep the last value.
pub fn sr<S: Src, const K: usize>(s: &mut S) {
    let mut b = SenderReport::builder(7);
    let (mut padding, mut ntp, mut rtp, mut pc, mut oc) = (0u8, 0u64, 0u32, 0u32, 0u32);
    let mut step = 0;
    while step < K {
        let choice = s.upto(4);
        let x = s.u8();
        let y = s.u32();
        let z = s.u64();
        b = match choice {
            0 => {
                s.assume(x <= 8);
                padding = x;
                b.padding(x)
            }
            1 => {
                ntp = z;
                b.ntp_timestamp(z)
            }
            2 => {
                rtp = y;
                b.rtp_timestamp(y)
            }
            3 => {
                pc = y;
                b.packet_count(y)
            }
            _ => {
                oc = y;
                b.octet_count(y)
            }
        };
        step += 1;
    }
    // canonical: the same setters in reverse declaration order
    let c = SenderReport::builder(7).octet_count(oc).packet_count(pc).rtp_timestamp(rtp).ntp_timestamp(ntp).padding(padding);
    same_output::<S, _, _, 48>(s, &b, &c);
    vcover!(padding > 0 && ntp != 0, "padding and a timestamp set");
    forget((b, c));
}

/// SR/RR report blocks: insertion order is kept whatever is set in between.
pub fn sr_blocks<S: Src>(s: &mut S) {
    let (s1, s2) = (s.u32(), s.u32());
    let (f1, f2) = (s.u8(), s.u8());
    let pad = s.u8();
    let rtp = s.u32();
    s.assume(pad <= 8);
    let before = s.bool();
    let mut b = SenderReport::builder(7);
    if before {
        b = b.padding(pad).rtp_timestamp(rtp);
    }
    b = b.add_report_block(ReportBlock::builder(s1).fraction_lost(f1));
    if !before {
        b = b.rtp_timestamp(rtp);
    }
    b = b.add_report_block(ReportBlock::builder(s2).fraction_lost(f2));
    if !before {
        b = b.padding(pad);
    }
    let c = SenderReport::builder(7)
        .add_report_block(ReportBlock::builder(s1).fraction_lost(f1))
        .add_report_block(ReportBlock::builder(s2).fraction_lost(f2))
        .rtp_timestamp(rtp)
        .padding(pad);
    same_output::<S, _, _, 92>(s, &b, &c);
    vcover!(s1 != s2 && pad > 0, "two distinct blocks, padded");
    forget((b, c));
}

pub fn rr<S: Src, const K: usize>(s: &mut S) {
    let mut b = ReceiverReport::builder(9);
    let mut padding = 0u8;
    let mut blocks = [(0u32, 0u8); K];
    let mut nb = 0;
    let mut step = 0;
    while step < K {
        let choice = s.upto(1);
        let x = s.u8();
        let y = s.u32();
        b = match choice {
            0 => {
                s.assume(x <= 8);
                padding = x;
                b.padding(x)
            }
            _ => {
                s.assume(nb < 2);
                blocks[nb] = (y, x);
                nb += 1;
                b.add_report_block(ReportBlock::builder(y).fraction_lost(x))
            }
        };
        step += 1;
    }
    let mut c = ReceiverReport::builder(9);
    let mut q = 0;
    while q < K {
        if q < nb {
            c = c.add_report_block(ReportBlock::builder(blocks[q].0).fraction_lost(blocks[q].1));
        }
        q += 1;
    }
    c = c.padding(padding);
    same_output::<S, _, _, 72>(s, &b, &c);
    vcover!(nb >= 1 && padding > 0, "a block and padding set");
    forget((b, c));
}

/// Report-block setters: independent, last value wins.
pub fn report_block<S: Src, const K: usize>(s: &mut S) {
    let ssrc = s.u32();
    let mut b = ReportBlock::builder(ssrc);
    let mut f = [0u32; 6];
    let mut step = 0;
    while step < K {
        let choice = s.upto(5);
        let y = s.u32();
        f[choice] = y;
        b = match choice {
            0 => {
                f[0] = y & 0xff;
                b.fraction_lost(y as u8)
            }
            1 => {
                s.assume(y <= 0xff_ffff);
                b.cumulative_lost(y)
            }
            2 => b.extended_sequence_number(y),
            3 => b.interarrival_jitter(y),
            4 => b.last_sender_report_timestamp(y),
            _ => b.delay_since_last_sender_report_timestamp(y),
        };
        step += 1;
    }
    let c = ReportBlock::builder(ssrc)
        .delay_since_last_sender_report_timestamp(f[5])
        .last_sender_report_timestamp(f[4])
        .interarrival_jitter(f[3])
        .extended_sequence_number(f[2])
        .cumulative_lost(f[1])
        .fraction_lost(f[0] as u8);
    let x = ReceiverReport::builder(1).add_report_block(b);
    let y = ReceiverReport::builder(1).add_report_block(c);
    same_output::<S, _, _, 40>(s, &x, &y);
    forget((x, y));
}

// ------------------------------------------------------------------ APP / Unknown

pub fn app<S: Src, const K: usize>(s: &mut S) {
    let da = Blob::<8>::draw(s, 8);
    let db = Blob::<8>::draw(s, 8);
    let ssrc = s.u32();
    let mut b = App::builder(ssrc, "nam");
    let (mut padding, mut subtype) = (0u8, 0u8);
    let mut data: Option<bool> = None;
    let mut step = 0;
    while step < K {
        let choice = s.upto(3);
        let x = s.u8();
        b = match choice {
            0 => {
                s.assume(x <= 12);
                padding = x;
                b.padding(x)
            }
            1 => {
                subtype = x;
                b.subtype(x)
            }
            2 => {
                data = Some(false);
                b.data(da.as_bytes())
            }
            _ => {
                data = Some(true);
                b.data(db.as_bytes())
            }
        };
        step += 1;
    }
    let mut c = App::builder(ssrc, "nam");
    if let Some(which) = data {
        c = c.data(if which { db.as_bytes() } else { da.as_bytes() });
    }
    c = c.subtype(subtype).padding(padding);
    same_output::<S, _, _, 48>(s, &b, &c);
    // the enum wrapper and a one-member compound produce the same bytes
    let c2 = App::builder(ssrc, "nam").padding(padding).subtype(subtype).data(match data {
        Some(true) => db.as_bytes(),
        Some(false) => da.as_bytes(),
        None => &[],
    });
    let wrapped = PacketBuilder::from(c2);
    same_output::<S, _, _, 48>(s, &b, &wrapped);
    let one = Compound::builder().add_packet(wrapped);
    same_output::<S, _, _, 48>(s, &b, &one);
    vcover!(data == Some(true) && padding > 0, "data replaced and padded");
    forget(one);
}

pub fn unknown<S: Src, const K: usize>(s: &mut S) {
    let d = Blob::<8>::draw(s, 8);
    let t = s.u8();
    let mut b = Unknown::builder(t, d.as_bytes());
    let (mut padding, mut count) = (0u8, 0u8);
    let mut step = 0;
    while step < K {
        let choice = s.upto(1);
        let x = s.u8();
        b = match choice {
            0 => {
                s.assume(x <= 12);
                padding = x;
                b.padding(x)
            }
            _ => {
                count = x;
                b.count(x)
            }
        };
        step += 1;
    }
    let c = UnknownBuilder::new(t, d.as_bytes()).count(count).padding(padding);
    same_output::<S, _, _, 40>(s, &b, &c);
    let wrapped = PacketBuilder::from(UnknownBuilder::new(t, d.as_bytes()).padding(padding).count(count));
    same_output::<S, _, _, 40>(s, &b, &wrapped);
    vcover!(padding > 0 && count > 0, "both setters used");
}

// ------------------------------------------------------------------ SDES

pub fn sdes<S: Src, const K: usize>(s: &mut S) {
    let va = Text::<4>::draw(s, 4);
    let vb = Text::<4>::draw(s, 4);
    let pre = Blob::<3>::draw(s, 3);
    let ssrc = s.u32();
    let mut chunk = SdesChunk::builder(ssrc);
    // shadow: list of (type, which value, with prefix)
    let mut items = [(0u8, false, false); K];
    let mut ni = 0;
    let mut padding = 0u8;
    let mut step = 0;
    while step < K {
        let choice = s.upto(3);
        let t = s.u8();
        let which = s.bool();
        let with_prefix = s.bool();
        s.assume(t != 0);
        let v = if which { vb.as_str() } else { va.as_str() };
        let mut item = SdesItem::builder(t, v);
        if with_prefix {
            item = item.prefix(pre.as_bytes());
        }
        match choice {
            0 => {
                items[ni] = (t, which, with_prefix);
                ni += 1;
                chunk = chunk.add_item(item);
            }
            1 => {
                items[ni] = (t, which, with_prefix);
                ni += 1;
                chunk = chunk.add_item_owned(item);
            }
            2 => {
                items[ni] = (t, which, with_prefix);
                ni += 1;
                chunk = chunk.add_item(item.into_owned());
            }
            _ => {
                s.assume(t <= 8);
                padding = t;
            }
        }
        step += 1;
    }
    let b = Sdes::builder().add_chunk(chunk).padding(padding);
    let mut cchunk = SdesChunk::builder(ssrc);
    let mut q = 0;
    while q < K {
        if q < ni {
            let (t, which, with_prefix) = items[q];
            let mut item = SdesItem::builder(t, if which { vb.as_str() } else { va.as_str() });
            if with_prefix {
                item = item.prefix(pre.as_bytes());
            }
            cchunk = cchunk.add_item(item);
        }
        q += 1;
    }
    let c = Sdes::builder().padding(padding).add_chunk(cchunk);
    same_output::<S, _, _, 72>(s, &b, &c);
    vcover!(ni >= 2, "two items added");
    forget((b, c));
}

/// Owned and borrowed SDES items produce the same bytes (PRIV prefix included).
pub fn sdes_owned<S: Src, const WHICH: usize>(s: &mut S) {
    let v = Text::<4>::draw(s, 4);
    let pre = Blob::<3>::draw(s, 3);
    let t = s.u8();
    s.assume(t != 0);
    let ssrc = s.u32();
    let pad = s.u8();
    s.assume(pad <= 8);
    let mk = || SdesItem::builder(t, v.as_str()).prefix(pre.as_bytes());
    let chunk = match WHICH {
        0 => SdesChunk::builder(ssrc).add_item_owned(mk()),
        1 => SdesChunk::builder(ssrc).add_item(mk().into_owned()),
        _ => SdesChunk::builder(ssrc).add_item(mk().into_owned().into_owned()),
    };
    let b = Sdes::builder().add_chunk(chunk).padding(pad);
    let c = Sdes::builder().padding(pad).add_chunk(SdesChunk::builder(ssrc).add_item(mk()));
    same_output::<S, _, _, 40>(s, &b, &c);
    vcover!(t == 8 && pre.len > 0, "owned PRIV item with prefix");
    forget((b, c));
}

// ------------------------------------------------------------------ feedback and FCI

pub fn rpsi<S: Src, const K: usize>(s: &mut S) {
    let da = Blob::<6>::draw(s, 6);
    let db = Blob::<6>::draw(s, 6);
    let mut f = Rpsi::builder();
    let mut pt = 0u8;
    let mut data: Option<(bool, u8)> = None;
    let mut step = 0;
    while step < K {
        let choice = s.upto(3);
        let x = s.u8();
        f = match choice {
            0 => {
                pt = x;
                f.payload_type(x)
            }
            1 => {
                data = Some((false, x));
                f.native_data(da.as_bytes(), x)
            }
            2 => {
                data = Some((true, x));
                f.native_data(db.as_bytes(), x)
            }
            _ => {
                // owned variant must keep the payload type set before
                data = Some((true, x));
                f.native_data_owned(db.as_bytes(), x)
            }
        };
        step += 1;
    }
    let mut c = Rpsi::builder();
    if let Some((which, over)) = data {
        c = c.native_data(if which { db.as_bytes() } else { da.as_bytes() }, over);
    }
    c = c.payload_type(pt);
    let sender = s.u32();
    let media = s.u32();
    let pad = s.u8();
    s.assume(pad <= 8);
    let x = PayloadFeedback::builder(&f).padding(pad).media_ssrc(media).sender_ssrc(sender);
    let y = PayloadFeedback::builder(&c).sender_ssrc(sender).media_ssrc(media).padding(pad);
    same_output::<S, _, _, 48>(s, &x, &y);
    vcover!(data.is_some() && pt > 0, "payload type and data set");
}

/// Feedback header setters in any order; borrowed vs owned FCI; enum wrapper.
pub fn feedback<S: Src, const K: usize>(s: &mut S) {
    let e = SliCfg::<1>::draw(s);
    let sli = e.builder();
    let mut b = PayloadFeedback::builder(&sli);
    let (mut sender, mut media, mut padding) = (0u32, 0u32, 0u8);
    let mut step = 0;
    while step < K {
        let choice = s.upto(2);
        let x = s.u8();
        let y = s.u32();
        b = match choice {
            0 => {
                sender = y;
                b.sender_ssrc(y)
            }
            1 => {
                media = y;
                b.media_ssrc(y)
            }
            _ => {
                s.assume(x <= 12);
                padding = x;
                b.padding(x)
            }
        };
        step += 1;
    }
    let owned = PayloadFeedback::builder_owned(e.builder()).padding(padding).media_ssrc(media).sender_ssrc(sender);
    same_output::<S, _, _, 40>(s, &b, &owned);
    let wrapped = PacketBuilder::from(PayloadFeedback::builder(&sli).sender_ssrc(sender).media_ssrc(media).padding(padding));
    same_output::<S, _, _, 40>(s, &b, &wrapped);
    vcover!(padding > 0 && sender != 0, "padded feedback");
    forget((owned, wrapped));
}

pub fn transport_feedback<S: Src, const K: usize>(s: &mut S) {
    let seq = s.u16();
    let nack = Nack::builder().add_rtp_sequence(seq);
    let mut b = TransportFeedback::builder(&nack);
    let (mut sender, mut media, mut padding) = (0u32, 0u32, 0u8);
    let mut step = 0;
    while step < K {
        let choice = s.upto(2);
        let x = s.u8();
        let y = s.u32();
        b = match choice {
            0 => {
                sender = y;
                b.sender_ssrc(y)
            }
            1 => {
                media = y;
                b.media_ssrc(y)
            }
            _ => {
                s.assume(x <= 12);
                padding = x;
                b.padding(x)
            }
        };
        step += 1;
    }
    // re-adding the sequence number is idempotent; owned FCI gives the same bytes
    let again = Nack::builder().add_rtp_sequence(seq).add_rtp_sequence(seq);
    let owned = TransportFeedback::builder_owned(again).padding(padding).media_ssrc(media).sender_ssrc(sender);
    same_output::<S, _, _, 40>(s, &b, &owned);
    vcover!(padding > 0, "padded transport feedback");
    forget(owned);
}

/// Re-adding a NACK sequence number is idempotent and insertion order is irrelevant.
pub fn nack_readd<S: Src>(s: &mut S) {
    let (a, b) = (s.u16(), s.u16());
    let x = Nack::builder().add_rtp_sequence(a).add_rtp_sequence(b).add_rtp_sequence(a);
    let y = Nack::builder().add_rtp_sequence(b).add_rtp_sequence(a);
    let i = s.upto(7);
    assert!(x.calculate_size() == y.calculate_size());
    let (mut p, mut q) = ([0u8; 12], [0u8; 12]);
    let (rp, rq) = (x.write_into(&mut p), y.write_into(&mut q));
    assert!(rp == rq);
    if let Ok(n) = rp {
        if i < n {
            assert!(p[i] == q[i]);
        }
    }
    vcover!(a != b, "two distinct numbers");
    forget((x, y));
}

/// Re-adding a FIR SSRC keeps the last sequence.
pub fn fir_readd<S: Src, const SYMBOLIC_SSRC: bool>(s: &mut S) {
    let drawn = s.u32();
    let ssrc = if SYMBOLIC_SSRC { drawn } else { 0x1234_5678 };
    let (s1, s2) = (s.u8(), s.u8());
    let x = Fir::builder().add_ssrc(ssrc, s1).add_ssrc(ssrc, s2);
    let y = Fir::builder().add_ssrc(ssrc, s2);
    let i = s.upto(7);
    assert!(x.calculate_size() == y.calculate_size());
    let (mut p, mut q) = ([0u8; 12], [0u8; 12]);
    let (rp, rq) = (x.write_into(&mut p), y.write_into(&mut q));
    assert!(rp == rq && rp == Ok(8));
    assert!(p[i] == q[i]);
    vcover!(s1 != s2, "sequence replaced");
    forget((x, y));
}

common::register! {
    q_bye = bye::<_, 3> => 2,
    q_sr = sr::<_, 3> => 2,
    q_sr_blocks = sr_blocks => 3,
    q_rr = rr::<_, 2> => 2,
    q_report_block = report_block::<_, 3> => 2,
    q_app = app::<_, 3> => 2,
    q_unknown = unknown::<_, 3> => 2,
    t_sdes_2 = sdes::<_, 2> => 2,
    q_sdes_add_item_owned = sdes_owned::<_, 0> => 2,
    q_sdes_into_owned = sdes_owned::<_, 1> => 2,
    t_sdes_into_owned_twice = sdes_owned::<_, 2> => 2,
    q_rpsi = rpsi::<_, 3> => 2,
    q_feedback = feedback::<_, 3> => 2,
    q_transport_feedback = transport_feedback::<_, 2> => 2,
    t_bye = bye::<_, 4> => 2,
    t_sr = sr::<_, 4> => 2,
    t_rr = rr::<_, 3> => 2,
    t_report_block = report_block::<_, 5> => 2,
    t_app = app::<_, 4> => 2,
    t_sdes = sdes::<_, 3> => 2,
    t_rpsi = rpsi::<_, 4> => 2,
    t_feedback = feedback::<_, 4> => 2,
    t_nack_readd = nack_readd => 2,
}

/// The same, stated directly on the bytes of one builder (half the container work of
/// `fir_readd`): after `add_ssrc(x, s1).add_ssrc(x, s2)` the one entry written is `(x, s2)`.
pub fn fir_readd_last<S: Src>(s: &mut S) {
    let ssrc = 0x1234_5678u32;
    let (s1, s2) = (s.u8(), s.u8());
    let x = Fir::builder().add_ssrc(ssrc, s1).add_ssrc(ssrc, s2);
    let mut p = [0x5Au8; 12];
    let r = x.write_into(&mut p);
    assert!(r == Ok(8), "re-adding an SSRC must not add an entry");
    assert!(p[0] == 0x12 && p[1] == 0x34 && p[2] == 0x56 && p[3] == 0x78);
    assert!(p[4] == s2, "re-adding a FIR SSRC must keep the last sequence");
    vcover!(s1 != s2, "sequence replaced");
    forget(x);
}

common::register_hashmap! {
    q_fir_readd_last = fir_readd_last => 4,
    t_fir_readd = fir_readd::<_, false> => 4,
    t_fir_readd_any_ssrc = fir_readd::<_, true> => 4,
}

#[cfg(not(kani))]
pub const REGISTRIES: &[&[(&str, fn(&mut common::R))]] = &[REGISTRY, REGISTRY_HASHMAP];
