//! C09 — decoded fields are exactly the bytes on the wire; views are sub-slices of the input.
//!
//! (a) on every accepted input: accessor == reference big-endian read at the RFC offset, and
//!     every returned slice lies inside the caller's buffer at the RFC offset (pointer
//!     comparison within one object);
//! (b) well-formed packets produced by the reference encoder (`common::cfg`) from symbolic
//!     fields are accepted.
use common::cfg::*;
use common::refs::*;
use common::shapes::Image;
use common::{forget, vcover, Src};
use rtcp_types::prelude::*;
use rtcp_types::*;

macro_rules! input {
    ($s:ident, $n:expr => $data:ident, $len:ident, $d:ident) => {
        let $data: [u8; $n] = $s.bytes();
        let $len = $s.upto($n);
        let $d = &$data[..$len];
    };
}

/// `view` is `d[off..off+view.len()]` itself (same memory), not a copy.
fn is_subslice_at(d: &[u8], view: &[u8], off: usize) -> bool {
    off + view.len() <= d.len() && view.as_ptr() == d[off..].as_ptr()
}

fn block_eq(b: &ReportBlock<'_>, d: &[u8], o: usize) {
    assert!(b.ssrc() == be32(d, o));
    assert!(b.fraction_lost() == d[o + 4]);
    assert!(b.cumulative_lost() == be32(d, o + 4) & 0xff_ffff);
    assert!(b.extended_sequence_number() == be32(d, o + 8));
    assert!(b.interarrival_jitter() == be32(d, o + 12));
    assert!(b.last_sender_report_timestamp() == be32(d, o + 16));
    assert!(b.delay_since_last_sender_report_timestamp() == be32(d, o + 20));
}

pub fn sr<S: Src, const N: usize>(s: &mut S) {
    input!(s, N => data, len, d);
    let k = s.upto(N / 24);
    if let Ok(p) = SenderReport::parse(d) {
        assert!(p.ssrc() == be32(d, 4));
        assert!(p.ntp_timestamp() == be64(d, 8));
        assert!(p.rtp_timestamp() == be32(d, 16));
        assert!(p.packet_count() == be32(d, 20));
        assert!(p.octet_count() == be32(d, 24));
        assert!(p.n_reports() == d[0] & 0x1f);
        let n = (d[0] & 0x1f) as usize;
        match p.report_blocks().nth(k) {
            Some(b) => {
                assert!(k < n);
                block_eq(&b, d, 28 + 24 * k);
                vcover!(k == 1, "second block read");
            }
            None => assert!(k >= n),
        }
    }
}

pub fn rr<S: Src, const N: usize>(s: &mut S) {
    input!(s, N => data, len, d);
    let k = s.upto(N / 24);
    if let Ok(p) = ReceiverReport::parse(d) {
        assert!(p.ssrc() == be32(d, 4));
        assert!(p.n_reports() == d[0] & 0x1f);
        let n = (d[0] & 0x1f) as usize;
        match p.report_blocks().nth(k) {
            Some(b) => {
                assert!(k < n);
                block_eq(&b, d, 8 + 24 * k);
                vcover!(k == 1, "second block read");
            }
            None => assert!(k >= n),
        }
    }
}

pub fn report_block<S: Src>(s: &mut S) {
    let data: [u8; 24] = s.bytes();
    let b = ReportBlock::parse(&data).expect("24 bytes are a report block");
    block_eq(&b, &data, 0);
    vcover!(true, "block decoded");
}

pub fn app<S: Src, const N: usize>(s: &mut S) {
    input!(s, N => data, len, d);
    if let Ok(p) = App::parse(d) {
        assert!(p.ssrc() == be32(d, 4));
        assert!(p.subtype() == d[0] & 0x1f);
        let nm = p.name();
        assert!(nm[0] == d[8] && nm[1] == d[9] && nm[2] == d[10] && nm[3] == d[11]);
        let pad = if d[0] & 0x20 != 0 { d[len - 1] as usize } else { 0 };
        let payload = p.data();
        assert!(payload.len() == len - 12 - pad);
        assert!(is_subslice_at(d, payload, 12));
        vcover!(pad > 0 && !payload.is_empty(), "padded APP with payload");
    }
}

pub fn bye<S: Src, const N: usize>(s: &mut S) {
    input!(s, N => data, len, d);
    let k = s.upto(32);
    if let Ok(p) = Bye::parse(d) {
        let n = (d[0] & 0x1f) as usize;
        match p.ssrcs().nth(k) {
            Some(x) => assert!(k < n && x == be32(d, 4 + 4 * k)),
            None => assert!(k >= n),
        }
        if let Some(r) = p.reason() {
            let off = 4 + 4 * n;
            // the reason is the length-prefixed text right after the sources
            assert!(r.len() == d[off] as usize);
            assert!(is_subslice_at(d, r, off + 1));
            vcover!(!r.is_empty(), "reason view");
        }
    }
}

pub fn fb<S: Src, const N: usize>(s: &mut S) {
    input!(s, N => data, len, d);
    if let Ok(p) = TransportFeedback::parse(d) {
        assert!(p.sender_ssrc() == be32(d, 4) && p.media_ssrc() == be32(d, 8));
        assert!(p.count() == d[0] & 0x1f);
        vcover!(true, "RTPFB header");
    }
    if let Ok(p) = PayloadFeedback::parse(d) {
        assert!(p.sender_ssrc() == be32(d, 4) && p.media_ssrc() == be32(d, 8));
        assert!(p.count() == d[0] & 0x1f);
        vcover!(true, "PSFB header");
    }
}

pub fn unknown<S: Src, const N: usize>(s: &mut S) {
    input!(s, N => data, len, d);
    if let Ok(p) = Unknown::parse(d) {
        assert!(p.data().len() == len && is_subslice_at(d, p.data(), 0));
        vcover!(true, "unknown view");
    }
}

// ---------------------------------------------------------------- (b) reference-encoded packets

/// Writes the reference image into `buf` (loop over the image bytes).
fn render<I: Image, const B: usize>(img: &I, buf: &mut [u8; B]) -> usize {
    let n = img.size();
    let mut i = 0;
    while i < B {
        if i < n {
            buf[i] = img.byte(i);
        }
        i += 1;
    }
    n
}

pub fn enc_sr<S: Src, const NB: usize, const B: usize>(s: &mut S) {
    let c = SrCfg::<NB>::draw(s);
    s.assume(c.valid() && c.padding <= 8);
    let k = s.upto(if NB > 0 { NB - 1 } else { 0 });
    let mut buf = [0u8; B];
    let n = render(&c, &mut buf);
    let p = SenderReport::parse(&buf[..n]).expect("well-formed SR rejected");
    assert!(p.ssrc() == c.ssrc && p.ntp_timestamp() == c.ntp && p.rtp_timestamp() == c.rtp);
    assert!(p.packet_count() == c.packets && p.octet_count() == c.octets);
    assert!(p.padding() == if c.padding > 0 { Some(c.padding) } else { None });
    if NB > 0 {
        let b = p.report_blocks().nth(k).expect("block missing");
        assert!(b.ssrc() == c.blocks[k].ssrc && b.cumulative_lost() == c.blocks[k].cumulative);
        assert!(b.fraction_lost() == c.blocks[k].fraction && b.interarrival_jitter() == c.blocks[k].jitter);
    }
    vcover!(c.padding > 0, "padded reference SR accepted");
}

pub fn enc_rr<S: Src, const NB: usize, const B: usize>(s: &mut S) {
    let c = RrCfg::<NB>::draw(s);
    s.assume(c.valid() && c.padding <= 8);
    let mut buf = [0u8; B];
    let n = render(&c, &mut buf);
    let p = ReceiverReport::parse(&buf[..n]).expect("well-formed RR rejected");
    assert!(p.ssrc() == c.ssrc && p.n_reports() as usize == NB);
    vcover!(c.padding > 0, "padded reference RR accepted");
}

pub fn enc_bye<S: Src, const NS: usize, const L: usize, const B: usize>(s: &mut S) {
    let reason = Text::<L>::draw(s, L);
    let c = ByeCfg::<NS, L>::draw_with(s, reason);
    s.assume(c.valid() && c.padding <= 8);
    let j = s.upto(if L > 0 { L - 1 } else { 0 });
    let mut buf = [0u8; B];
    let n = render(&c, &mut buf);
    let p = Bye::parse(&buf[..n]).expect("well-formed BYE rejected");
    assert!(p.ssrcs().count() == NS);
    match p.reason() {
        Some(r) => {
            assert!(r.len() == c.reason.len && c.reason.len > 0);
            if j < r.len() {
                assert!(r[j] == c.reason.bytes[j]);
            }
        }
        None => assert!(c.reason.len == 0),
    }
    vcover!(c.padding > 0 && c.reason.len > 0, "padded reference BYE with reason accepted");
}

pub fn enc_app<S: Src, const L: usize, const B: usize>(s: &mut S) {
    let data = Blob::<L>::draw(s, L);
    let c = AppCfg::draw_with(s, data);
    s.assume(c.valid() && c.padding <= 8);
    let mut buf = [0u8; B];
    let n = render(&c, &mut buf);
    let p = App::parse(&buf[..n]).expect("well-formed APP rejected");
    assert!(p.ssrc() == c.ssrc && p.subtype() == c.subtype && p.data().len() == c.data.len);
    vcover!(c.padding > 0 && c.data.len > 0, "padded reference APP accepted");
}

pub fn enc_fb<S: Src, const B: usize>(s: &mut S) {
    let t = s.bool();
    let c = FbCfg::draw(s, t);
    s.assume(padding_ok(c.padding) && c.padding <= 8);
    let fmt = s.u8();
    s.assume(fmt <= 31);
    let words = s.upto(3);
    let fill = s.u8();
    let n = c.size(4 * words);
    let mut buf = [0u8; B];
    let mut i = 0;
    while i < B {
        if i < n {
            buf[i] = c.byte(i, fmt, 4 * words, |_| fill);
        }
        i += 1;
    }
    if t {
        let p = TransportFeedback::parse(&buf[..n]).expect("well-formed RTPFB rejected");
        assert!(p.sender_ssrc() == c.sender && p.media_ssrc() == c.media && p.count() == fmt);
    } else {
        let p = PayloadFeedback::parse(&buf[..n]).expect("well-formed PSFB rejected");
        assert!(p.sender_ssrc() == c.sender && p.media_ssrc() == c.media && p.count() == fmt);
    }
    vcover!(c.padding > 0 && words > 0, "padded reference feedback accepted");
    forget(c);
}

pub fn enc_unknown<S: Src, const L: usize, const B: usize>(s: &mut S) {
    let data = Blob::<L>::draw(s, L);
    let c = UnknownCfg::draw_with(s, data);
    s.assume(c.valid() && c.padding <= 8);
    let mut buf = [0u8; B];
    let n = render(&c, &mut buf);
    let p = Unknown::parse(&buf[..n]).expect("well-formed packet of unknown type rejected");
    assert!(p.data().len() == n && p.type_() == c.type_ && p.count() == c.count);
    vcover!(c.padding > 0, "padded reference unknown accepted");
}

/// Clause (b) at sizes the reference-encoder instances do not reach: every string framed as
/// the RFC demands (version 2, the type, length field = len/4 - 1, padding bit with a final
/// count that is a non-zero multiple of 4 and leaves the fixed part and what the count field
/// announces intact, zero padding octets) is accepted, and the payload-like accessor spans what is left.  All other
/// bytes are arbitrary, so this is a superset of what an RFC encoder produces.
/// `KIND`: 0 APP, 1 RTPFB, 2 PSFB, 3 RR, 4 SR, 5 unknown type 199.
pub fn framed_accept<S: Src, const N: usize, const KIND: u8>(s: &mut S) {
    let mut data: [u8; N] = s.bytes();
    let (pt, min, per_count) = match KIND {
        0 => (PT_APP, 12, 0),
        1 => (PT_RTPFB, 12, 0),
        2 => (PT_PSFB, 12, 0),
        3 => (PT_RR, 8, 24),
        4 => (PT_SR, 28, 24),
        _ => (199, 4, 0),
    };
    let words = s.range(min / 4, N / 4);
    let len = 4 * words;
    let pad = s.u8() as usize;
    let count = (data[0] & 0x1f) as usize;
    s.assume(pad % 4 == 0 && min + per_count * count + pad <= len);
    data[0] = 0x80 | if pad > 0 { 0x20 } else { 0 } | (data[0] & 0x1f);
    data[1] = pt;
    data[2] = ((words - 1) >> 8) as u8;
    data[3] = (words - 1) as u8;
    if pad > 0 {
        data[len - 1] = pad as u8;
        // padding octets are zeros (RFC 3550 leaves their value open; an encoder writes zeros)
        let mut q = 2;
        while q <= 255 {
            if q <= pad {
                data[len - q] = 0;
            }
            q += 1;
        }
    }
    let d = &data[..len];
    let want_pad = if pad > 0 { Some(pad as u8) } else { None };
    match KIND {
        0 => {
            let p = App::parse(d).expect("well-framed APP rejected");
            assert!(p.padding() == want_pad && p.data().len() == len - 12 - pad);
        }
        1 => {
            let p = TransportFeedback::parse(d).expect("well-framed RTPFB rejected");
            assert!(p.padding() == want_pad && p.length() == len);
        }
        2 => {
            let p = PayloadFeedback::parse(d).expect("well-framed PSFB rejected");
            assert!(p.padding() == want_pad && p.length() == len);
        }
        3 => {
            let p = ReceiverReport::parse(d).expect("well-framed RR rejected");
            assert!(p.padding() == want_pad && p.n_reports() as usize == count);
        }
        4 => {
            let p = SenderReport::parse(d).expect("well-framed SR rejected");
            assert!(p.padding() == want_pad && p.n_reports() as usize == count);
        }
        _ => {
            let p = Unknown::parse(d).expect("well-framed unknown packet rejected");
            assert!(p.length() == len);
        }
    }
    vcover!(pad > 0 && len - min >= 256, "padded packet more than 256 bytes beyond its minimum");
    vcover!(pad == 0 && len == min, "smallest packet");
}

common::register! {
    q_framed_app = framed_accept::<_, 320, 0> => 2,
    q_framed_tfb = framed_accept::<_, 320, 1> => 2,
    q_framed_pfb = framed_accept::<_, 320, 2> => 2,
    q_framed_rr = framed_accept::<_, 1040, 3> => 2,
    q_framed_sr = framed_accept::<_, 1060, 4> => 2,
    q_framed_unknown = framed_accept::<_, 320, 5> => 2,
    q_sr = sr::<_, 80> => 5,
    q_rr = rr::<_, 64> => 5,
    q_report_block = report_block => 2,
    q_app = app::<_, 300> => 2,
    q_bye = bye::<_, 64> => 18,
    q_fb = fb::<_, 300> => 2,
    q_unknown = unknown::<_, 300> => 2,
    q_enc_sr_1 = enc_sr::<_, 1, 64> => 65,
    q_enc_rr_2 = enc_rr::<_, 2, 68> => 69,
    q_enc_bye_1 = enc_bye::<_, 1, 12, 36> => 37,
    q_enc_app = enc_app::<_, 12, 36> => 37,
    q_enc_fb = enc_fb::<_, 36> => 37,
    q_enc_unknown = enc_unknown::<_, 12, 28> => 29,
    t_sr = sr::<_, 256> => 12,
    t_rr = rr::<_, 256> => 12,
    t_app = app::<_, 1100> => 2,
    t_bye = bye::<_, 256> => 34,
    t_fb = fb::<_, 1100> => 2,
    t_unknown = unknown::<_, 1100> => 2,
    t_enc_sr_2 = enc_sr::<_, 2, 88> => 89,
    t_enc_bye_2 = enc_bye::<_, 2, 40, 64> => 65,
    t_enc_app = enc_app::<_, 32, 56> => 57,
}

#[cfg(not(kani))]
pub const REGISTRIES: &[&[(&str, fn(&mut common::R))]] = &[REGISTRY];
