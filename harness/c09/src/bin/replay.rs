#[cfg(not(kani))]
fn main() {
    common::replay_main_multi(c09::REGISTRIES)
}
#[cfg(kani)]
fn main() {}
