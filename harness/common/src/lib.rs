//! Shared plumbing of the /verif harness crates.
//!
//! Every harness is an ordinary generic function `fn body<S: Src>(s: &mut S)`.  Under
//! `cfg(kani)` it is instantiated with [`K`], whose draws are `kani::any()` and whose
//! `assume` is `kani::assume`; the replay binary instantiates the same function with [`R`],
//! which reads the values of a solver counterexample.  The oracle that CBMC decided and the
//! oracle that is replayed natively are therefore the same code.

pub mod cfg;
pub mod refs;
pub mod shapes;
#[path = "kf_generated.rs"]
pub mod kf;

/// Source of harness inputs.
pub trait Src {
    fn u8(&mut self) -> u8;
    fn u16(&mut self) -> u16;
    fn u32(&mut self) -> u32;
    fn u64(&mut self) -> u64;
    fn usize(&mut self) -> usize;
    fn bool(&mut self) -> bool;
    fn bytes<const N: usize>(&mut self) -> [u8; N];
    /// Restrict the inputs; a replay whose vector violates it is "not a counterexample".
    fn assume(&mut self, cond: bool);

    /// `usize` in `0..=max`.
    fn upto(&mut self, max: usize) -> usize {
        let v = self.usize();
        self.assume(v <= max);
        v
    }
    /// `usize` in `lo..=hi`.
    fn range(&mut self, lo: usize, hi: usize) -> usize {
        let v = self.usize();
        self.assume(lo <= v && v <= hi);
        v
    }
    /// One of the padding amounts the property quantifies over, plus illegal ones when
    /// `legal_only` is false: any `u8`.
    fn padding(&mut self, max: u8) -> u8 {
        let v = self.u8();
        self.assume(v <= max);
        v
    }
}

/// Symbolic source: every draw is a fresh nondeterministic value.
#[cfg(kani)]
pub struct K;

#[cfg(kani)]
impl Src for K {
    #[inline(always)]
    fn u8(&mut self) -> u8 {
        kani::any()
    }
    #[inline(always)]
    fn u16(&mut self) -> u16 {
        kani::any()
    }
    #[inline(always)]
    fn u32(&mut self) -> u32 {
        kani::any()
    }
    #[inline(always)]
    fn u64(&mut self) -> u64 {
        kani::any()
    }
    #[inline(always)]
    fn usize(&mut self) -> usize {
        kani::any()
    }
    #[inline(always)]
    fn bool(&mut self) -> bool {
        // drawn as a byte so the replay vector only ever holds plain integers
        let b: u8 = kani::any();
        kani::assume(b <= 1);
        b == 1
    }
    #[inline(always)]
    fn bytes<const N: usize>(&mut self) -> [u8; N] {
        kani::any()
    }
    #[inline(always)]
    fn assume(&mut self, cond: bool) {
        kani::assume(cond)
    }
}

/// Replay source: the values of one solver counterexample, in draw order.
pub struct R {
    vals: Vec<Vec<u8>>,
    pos: usize,
}

/// Panic payload used to tell "assumption violated" from a real failure.
pub struct AssumptionViolated;
/// Panic payload: the vector does not fit the harness (wrong length / widths).
pub struct BadVector(pub String);

impl R {
    pub fn new(vals: Vec<Vec<u8>>) -> Self {
        R { vals, pos: 0 }
    }
    fn take(&mut self, n: usize) -> Vec<u8> {
        if self.pos >= self.vals.len() {
            std::panic::panic_any(BadVector(format!(
                "vector exhausted at draw {} (want {} bytes)",
                self.pos, n
            )));
        }
        let v = self.vals[self.pos].clone();
        if v.len() != n {
            std::panic::panic_any(BadVector(format!(
                "draw {}: vector has {} bytes, harness wants {}",
                self.pos,
                v.len(),
                n
            )));
        }
        self.pos += 1;
        v
    }
    pub fn finished(&self) -> bool {
        self.pos == self.vals.len()
    }
    pub fn consumed(&self) -> usize {
        self.pos
    }
}

impl Src for R {
    fn u8(&mut self) -> u8 {
        self.take(1)[0]
    }
    fn u16(&mut self) -> u16 {
        u16::from_le_bytes(self.take(2).try_into().unwrap())
    }
    fn u32(&mut self) -> u32 {
        u32::from_le_bytes(self.take(4).try_into().unwrap())
    }
    fn u64(&mut self) -> u64 {
        u64::from_le_bytes(self.take(8).try_into().unwrap())
    }
    fn usize(&mut self) -> usize {
        u64::from_le_bytes(self.take(8).try_into().unwrap()) as usize
    }
    fn bool(&mut self) -> bool {
        let b = self.take(1)[0];
        self.assume(b <= 1);
        b == 1
    }
    fn bytes<const N: usize>(&mut self) -> [u8; N] {
        self.take(N).try_into().unwrap()
    }
    fn assume(&mut self, cond: bool) {
        if !cond {
            std::panic::panic_any(AssumptionViolated);
        }
    }
}

/// A cover point at the call site (vacuity witness); no-op outside Kani.
#[macro_export]
macro_rules! vcover {
    ($cond:expr, $label:literal) => {{
        #[cfg(kani)]
        kani::cover!($cond, $label);
        #[cfg(not(kani))]
        {
            let _ = $cond;
        }
    }};
}

/// Registers harness bodies: emits one `#[kani::proof]` per entry under `cfg(kani)` and a
/// name → function table for the native replay binary otherwise.
///
/// `register! { name = path : unwind, ... }`
#[macro_export]
macro_rules! register {
    ($($name:ident = $path:expr => $unwind:literal),* $(,)?) => {
        $(
            #[cfg(kani)]
            #[kani::proof]
            #[kani::unwind($unwind)]
            pub fn $name() {
                let mut k = $crate::K;
                ($path)(&mut k);
            }
        )*

        #[cfg(not(kani))]
        pub const REGISTRY: &[(&str, fn(&mut $crate::R))] = &[
            $( (stringify!($name), |r: &mut $crate::R| ($path)(r)), )*
        ];
    };
}

/// Leak a value so that no drop glue is symbolically executed.
#[inline(always)]
pub fn forget<T>(t: T) {
    core::mem::forget(t)
}

/// Entry point of every `replay` binary.
///
/// usage: `replay <harness> <file>` where file holds one line per draw: hex bytes
/// (little-endian for integers).  Exit codes: 0 ran to completion (does not reproduce),
/// 101 violation reproduced (panic), 3 assumption violated, 4 bad vector / unknown harness.
#[cfg(not(kani))]
pub fn replay_main(registry: &[(&str, fn(&mut R))]) -> ! {
    replay_main_multi(&[registry])
}

/// As [`replay_main`] over several registries.
#[cfg(not(kani))]
pub fn replay_main_multi(registries: &[&[(&str, fn(&mut R))]]) -> ! {
    let registry: Vec<(&str, fn(&mut R))> = registries.iter().flat_map(|r| r.iter().copied()).collect();
    let args: Vec<String> = std::env::args().collect();
    if args.len() == 2 && args[1] == "--list" {
        for (n, _) in registry.iter() {
            println!("{n}");
        }
        std::process::exit(0);
    }
    if args.len() != 3 {
        eprintln!("usage: replay <harness> <vector-file> | --list");
        std::process::exit(4);
    }
    let Some((_, f)) = registry.iter().find(|(n, _)| *n == args[1]) else {
        eprintln!("unknown harness {}", args[1]);
        std::process::exit(4);
    };
    let text = std::fs::read_to_string(&args[2]).expect("vector file");
    let mut vals = Vec::new();
    for line in text.lines() {
        let line = line.split('#').next().unwrap().trim();
        if line.is_empty() {
            continue;
        }
        let mut v = Vec::new();
        for tok in line.split_whitespace() {
            v.push(u8::from_str_radix(tok, 16).expect("hex byte"));
        }
        vals.push(v);
    }
    let mut r = R::new(vals);
    let res = std::panic::catch_unwind(std::panic::AssertUnwindSafe(|| f(&mut r)));
    match res {
        Ok(()) => {
            if !r.finished() {
                eprintln!("REPLAY: bad vector: only {} draws consumed", r.consumed());
                std::process::exit(4);
            }
            println!("REPLAY: harness ran to completion, no violation");
            std::process::exit(0);
        }
        Err(e) => {
            if e.downcast_ref::<AssumptionViolated>().is_some() {
                println!("REPLAY: assumption violated, not a counterexample");
                std::process::exit(3);
            }
            if let Some(b) = e.downcast_ref::<BadVector>() {
                eprintln!("REPLAY: bad vector: {}", b.0);
                std::process::exit(4);
            }
            println!("REPLAY: violation reproduced (panic above)");
            std::process::exit(101);
        }
    }
}

/// Canary harness: setup.sh runs it through `cargo kani --verbose` and compares the cbmc flag
/// set kani-driver uses with the one hard-wired in /verif/check.
#[cfg(kani)]
#[kani::proof]
fn canary() {
    let x: u8 = kani::any();
    assert!(x as u16 + 1 > x as u16);
}

/// Replacement for `RandomState::new` under Kani (the real one reads OS randomness, which
/// Kani cannot model): fixed keys.  Used only by harnesses that build a `FirBuilder`
/// (`HashMap`); listed as a stub in every evidence file concerned.
#[cfg(kani)]
pub fn fixed_random_state() -> std::hash::RandomState {
    unsafe { core::mem::transmute::<[u64; 2], std::hash::RandomState>([0x0123_4567, 0x89ab_cdef]) }
}

/// As [`register!`], for harnesses that construct a `HashMap` (FIR builder).
#[macro_export]
macro_rules! register_hashmap {
    ($($name:ident = $path:expr => $unwind:literal),* $(,)?) => {
        $(
            #[cfg(kani)]
            #[kani::proof]
            #[kani::unwind($unwind)]
            #[kani::stub(std::hash::RandomState::new, $crate::fixed_random_state)]
            pub fn $name() {
                let mut k = $crate::K;
                ($path)(&mut k);
            }
        )*

        #[cfg(not(kani))]
        pub const REGISTRY_HASHMAP: &[(&str, fn(&mut $crate::R))] = &[
            $( (stringify!($name), |r: &mut $crate::R| ($path)(r)), )*
        ];
    };
}

/// Model of `core::str::count::do_count_chars` (the word-at-a-time character counter std uses
/// for strings of 32 bytes or more): same result, computed byte by byte.  The real one goes
/// through `align_to`, whose split CBMC treats as nondeterministic, and does not finish.  It is
/// only reachable if the code under test counts characters; used by the harnesses that put
/// multi-byte text at a byte limit.
#[cfg(kani)]
pub fn count_chars_model(s: &str) -> usize {
    let b = s.as_bytes();
    let mut n = 0;
    let mut i = 0;
    while i < b.len() {
        if (b[i] as i8) >= -0x40 {
            n += 1;
        }
        i += 1;
    }
    n
}

/// As [`register!`], with `do_count_chars` replaced by [`count_chars_model`].
#[macro_export]
macro_rules! register_strcount {
    ($($name:ident = $path:expr => $unwind:literal),* $(,)?) => {
        $(
            #[cfg(kani)]
            #[kani::proof]
            #[kani::unwind($unwind)]
            #[kani::stub(core::str::count::do_count_chars, $crate::count_chars_model)]
            pub fn $name() {
                let mut k = $crate::K;
                ($path)(&mut k);
            }
        )*

        #[cfg(not(kani))]
        pub const REGISTRY_STRCOUNT: &[(&str, fn(&mut $crate::R))] = &[
            $( (stringify!($name), |r: &mut $crate::R| ($path)(r)), )*
        ];
    };
}
