//! Standard builder shapes shared by the writer-side properties (C06, C07, C14, C17, ...).
//!
//! A shape draws a configuration from the [`Src`], builds the real builder and hands both
//! to a property-specific [`Visitor`] together with the reference [`Image`].
use crate::cfg::*;
use crate::Src;
use rtcp_types::prelude::*;
use rtcp_types::*;

/// Reference image of a configuration.
pub trait Image {
    fn valid(&self) -> bool;
    fn size(&self) -> usize;
    fn byte(&self, i: usize) -> u8;
}

macro_rules! image {
    ([$($g:tt)*] $t:ty) => {
        impl<$($g)*> Image for $t {
            #[inline(always)]
            fn valid(&self) -> bool {
                <$t>::valid(self)
            }
            #[inline(always)]
            fn size(&self) -> usize {
                <$t>::size(self)
            }
            #[inline(always)]
            fn byte(&self, i: usize) -> u8 {
                <$t>::byte(self, i)
            }
        }
    };
}

image!([const NB: usize] SrCfg<NB>);
image!([const NB: usize] RrCfg<NB>);
image!([const NS: usize, const L: usize] ByeCfg<NS, L>);
image!([const L: usize] AppCfg<L>);
image!([const L: usize] UnknownCfg<L>);
image!([const NC: usize, const NI: usize, const L: usize] SdesCfg<NC, NI, L>);

/// What a property does with one (builder, reference image) pair.
pub trait Visitor {
    fn visit<S: Src, W: RtcpPacketWriter, I: Image>(&mut self, s: &mut S, w: &W, img: &I);
}

// ------------------------------------------------------------------ plain packets

pub fn sr<S: Src, V: Visitor, const NB: usize>(s: &mut S, v: &mut V, maxpad: u8) {
    let c = SrCfg::<NB>::draw(s);
    s.assume(c.padding <= maxpad);
    let b = c.builder();
    v.visit(s, &b, &c);
}

pub fn rr<S: Src, V: Visitor, const NB: usize>(s: &mut S, v: &mut V, maxpad: u8) {
    let c = RrCfg::<NB>::draw(s);
    s.assume(c.padding <= maxpad);
    let b = c.builder();
    v.visit(s, &b, &c);
}

/// BYE with a reason of symbolic length `0..=L` and symbolic ASCII content.
pub fn bye<S: Src, V: Visitor, const NS: usize, const L: usize>(s: &mut S, v: &mut V, maxpad: u8) {
    let reason = Text::<L>::draw(s, L);
    let c = ByeCfg::<NS, L>::draw_with(s, reason);
    s.assume(c.padding <= maxpad);
    let b = c.builder();
    v.visit(s, &b, &c);
}

/// BYE whose reason was set last, through `reason_owned` (padding and sources set before).
pub fn bye_owned<S: Src, V: Visitor, const NS: usize, const L: usize>(s: &mut S, v: &mut V, maxpad: u8) {
    let reason = Text::<L>::draw(s, L);
    let c = ByeCfg::<NS, L>::draw_with(s, reason);
    s.assume(c.padding <= maxpad && c.reason.len > 0);
    let b = c.builder_owned();
    v.visit(s, &b, &c);
    core::mem::forget(b);
}

/// BYE whose reason starts with a symbolic number of two-byte characters.
pub fn bye_utf8<S: Src, V: Visitor, const NS: usize, const L: usize>(s: &mut S, v: &mut V, maxpad: u8) {
    let reason = Text::<L>::draw_utf8(s, L);
    let c = ByeCfg::<NS, L>::draw_with(s, reason);
    s.assume(c.padding <= maxpad);
    let b = c.builder();
    v.visit(s, &b, &c);
}

/// BYE with a reason of symbolic length `0..=L`, constant content but 4 symbolic bytes.
pub fn bye_long<S: Src, V: Visitor, const NS: usize, const L: usize>(s: &mut S, v: &mut V, maxpad: u8) {
    let len = s.upto(L);
    let mut reason = Text::<L>::fixed::<S, 4>(s, 0);
    reason.len = len;
    let c = ByeCfg::<NS, L>::draw_with(s, reason);
    s.assume(c.padding <= maxpad);
    let b = c.builder();
    v.visit(s, &b, &c);
}

/// BYE with a reason of the concrete length `LEN` (limits 252..=256), 4 symbolic bytes.
pub fn bye_fixed<S: Src, V: Visitor, const NS: usize, const LEN: usize, const L: usize>(s: &mut S, v: &mut V, maxpad: u8) {
    let reason = Text::<L>::fixed::<S, 4>(s, LEN);
    let c = ByeCfg::<NS, L>::draw_with(s, reason);
    s.assume(c.padding <= maxpad);
    let b = c.builder();
    v.visit(s, &b, &c);
}

pub fn app<S: Src, V: Visitor, const L: usize>(s: &mut S, v: &mut V, maxpad: u8) {
    let data = Blob::<L>::draw(s, L);
    let c = AppCfg::draw_with(s, data);
    s.assume(c.padding <= maxpad);
    let b = c.builder();
    v.visit(s, &b, &c);
}

pub fn unknown<S: Src, V: Visitor, const L: usize>(s: &mut S, v: &mut V, maxpad: u8) {
    let data = Blob::<L>::draw(s, L);
    let c = UnknownCfg::draw_with(s, data);
    s.assume(c.padding <= maxpad);
    let b = c.builder();
    v.visit(s, &b, &c);
}

// ------------------------------------------------------------------ SDES

/// One item: symbolic type (non-zero), symbolic value/prefix lengths `0..=L` and content.
pub fn draw_item<S: Src, const L: usize>(s: &mut S) -> ItemCfg<L> {
    let type_ = s.u8();
    s.assume(type_ != 0);
    let value = Text::<L>::draw(s, L);
    let prefix = Blob::<L>::draw(s, L);
    ItemCfg { type_, value, prefix }
}

pub fn empty_item<const L: usize>() -> ItemCfg<L> {
    ItemCfg { type_: 1, value: Text { len: 0, bytes: [0; L] }, prefix: Blob { len: 0, bytes: [0; L] } }
}

/// `NC` chunks; chunk `c` has `counts[c]` items (concrete), at most `NI`.
pub fn draw_sdes<S: Src, const NC: usize, const NI: usize, const L: usize>(
    s: &mut S,
    counts: [usize; NC],
) -> SdesCfg<NC, NI, L> {
    let z = ChunkCfg { ssrc: 0, n: 0, items: [empty_item::<L>(); NI] };
    let mut chunks = [z; NC];
    let mut c = 0;
    while c < NC {
        chunks[c].ssrc = s.u32();
        chunks[c].n = counts[c];
        let mut i = 0;
        while i < NI {
            if i < counts[c] {
                chunks[c].items[i] = draw_item::<S, L>(s);
            }
            i += 1;
        }
        c += 1;
    }
    SdesCfg { padding: s.u8(), chunks }
}

pub fn sdes<S: Src, V: Visitor, const NC: usize, const NI: usize, const L: usize>(
    s: &mut S,
    v: &mut V,
    counts: [usize; NC],
    maxpad: u8,
) {
    let c = draw_sdes::<S, NC, NI, L>(s, counts);
    s.assume(c.padding <= maxpad);
    let b = c.builder();
    v.visit(s, &b, &c);
    crate::forget(b);
}

/// A single item whose value has the concrete length `LEN` (limits), PRIV or not by `type_`.
pub fn sdes_fixed<S: Src, V: Visitor, const LEN: usize, const PLEN: usize, const L: usize>(
    s: &mut S,
    v: &mut V,
    priv_: bool,
    maxpad: u8,
) {
    let t = s.u8();
    s.assume(t != 0 && (t == PRIV) == priv_);
    let value = Text::<L>::fixed::<S, 2>(s, LEN);
    let mut prefix = Blob { len: PLEN, bytes: [0x70; L] };
    prefix.bytes[0] = s.u8();
    let item = ItemCfg { type_: t, value, prefix };
    let chunk = ChunkCfg { ssrc: s.u32(), n: 1, items: [item] };
    let c = SdesCfg::<1, 1, L> { padding: s.u8(), chunks: [chunk] };
    s.assume(c.padding <= maxpad);
    let b = c.builder();
    v.visit(s, &b, &c);
    crate::forget(b);
}

// ------------------------------------------------------------------ feedback

/// Reference image of an FCI body.
pub trait FciImage {
    const FMT: u8;
    const TRANSPORT: bool;
    fn valid(&self) -> bool;
    fn size(&self) -> usize;
    fn byte(&self, o: usize) -> u8;
}

pub struct PliImg;
impl FciImage for PliImg {
    const FMT: u8 = FMT_PLI;
    const TRANSPORT: bool = false;
    fn valid(&self) -> bool {
        true
    }
    fn size(&self) -> usize {
        0
    }
    fn byte(&self, _o: usize) -> u8 {
        0
    }
}

impl<const N: usize> FciImage for SliCfg<N> {
    const FMT: u8 = FMT_SLI;
    const TRANSPORT: bool = false;
    fn valid(&self) -> bool {
        true
    }
    fn size(&self) -> usize {
        SliCfg::size(self)
    }
    fn byte(&self, o: usize) -> u8 {
        SliCfg::byte(self, o)
    }
}

impl<const L: usize> FciImage for RpsiCfg<L> {
    const FMT: u8 = FMT_RPSI;
    const TRANSPORT: bool = false;
    fn valid(&self) -> bool {
        RpsiCfg::valid(self)
    }
    fn size(&self) -> usize {
        RpsiCfg::size(self)
    }
    fn byte(&self, o: usize) -> u8 {
        RpsiCfg::byte(self, o)
    }
}

/// NACK image for up to 3 sequence numbers in any order with repeats (sorted and
/// de-duplicated here, then encoded with the greedy minimum cover).
#[derive(Clone, Copy)]
pub struct NackImg<const N: usize> {
    pub nw: usize,
    pub words: [(u16, u16); N],
}

impl<const N: usize> NackImg<N> {
    pub fn new(seqs: [u16; N]) -> Self {
        // selection sort on a tiny concrete-length array
        let mut a = seqs;
        let mut i = 0;
        while i < N {
            let mut j = i + 1;
            while j < N {
                if a[j] < a[i] {
                    let t = a[i];
                    a[i] = a[j];
                    a[j] = t;
                }
                j += 1;
            }
            i += 1;
        }
        // de-duplicate (stable)
        let mut u = [0u16; N];
        let mut n = 0;
        let mut i = 0;
        while i < N {
            if i == 0 || a[i] != a[i - 1] {
                u[n] = a[i];
                n += 1;
            }
            i += 1;
        }
        let mut words = [(0u16, 0u16); N];
        let nw = nack_words(&u, n, &mut words);
        NackImg { nw, words }
    }
}

impl<const N: usize> FciImage for NackImg<N> {
    const FMT: u8 = FMT_NACK;
    const TRANSPORT: bool = true;
    fn valid(&self) -> bool {
        true
    }
    fn size(&self) -> usize {
        4 * self.nw
    }
    fn byte(&self, o: usize) -> u8 {
        let (pid, blp) = self.words[o / 4];
        match o % 4 {
            0 => (pid >> 8) as u8,
            1 => pid as u8,
            2 => (blp >> 8) as u8,
            _ => blp as u8,
        }
    }
}

/// A feedback packet image: header fields + an FCI image placed in `fb.transport`'s kind.
pub struct FbImg<'a, F: FciImage> {
    pub fb: FbCfg,
    pub fci: &'a F,
}

impl<'a, F: FciImage> Image for FbImg<'a, F> {
    fn valid(&self) -> bool {
        padding_ok(self.fb.padding) && self.fb.transport == F::TRANSPORT && self.fci.valid()
    }
    fn size(&self) -> usize {
        self.fb.size(self.fci.size())
    }
    fn byte(&self, i: usize) -> u8 {
        self.fb.byte(i, F::FMT, self.fci.size(), |o| self.fci.byte(o))
    }
}

/// Visit a feedback packet of kind `transport` built around `fci` (borrowed).
pub fn fb<'a, S: Src, V: Visitor, F: FciImage>(
    s: &mut S,
    v: &mut V,
    fci: &'a dyn FciBuilder<'a>,
    img: &F,
    transport: bool,
    maxpad: u8,
) {
    let c = FbCfg::draw(s, transport);
    s.assume(c.padding <= maxpad);
    let image = FbImg { fb: c, fci: img };
    if transport {
        let b = TransportFeedback::builder(fci).sender_ssrc(c.sender).media_ssrc(c.media).padding(c.padding);
        v.visit(s, &b, &image);
    } else {
        let b = PayloadFeedback::builder(fci).sender_ssrc(c.sender).media_ssrc(c.media).padding(c.padding);
        v.visit(s, &b, &image);
    }
}

pub fn fb_pli<S: Src, V: Visitor>(s: &mut S, v: &mut V, transport: bool, maxpad: u8) {
    let f = Pli::builder();
    fb(s, v, &f, &PliImg, transport, maxpad);
}

pub fn fb_sli<S: Src, V: Visitor, const N: usize>(s: &mut S, v: &mut V, transport: bool, maxpad: u8) {
    let c = SliCfg::<N>::draw(s);
    let f = c.builder();
    fb(s, v, &f, &c, transport, maxpad);
    crate::forget(f);
}

pub fn fb_rpsi<S: Src, V: Visitor, const L: usize>(s: &mut S, v: &mut V, transport: bool, maxpad: u8) {
    let bits = Blob::<L>::draw(s, L);
    let c = RpsiCfg::draw_with(s, bits);
    let f = c.builder();
    fb(s, v, &f, &c, transport, maxpad);
}

/// NACK through the real `NackBuilder` with `N <= 3` symbolic sequence numbers.
pub fn fb_nack<S: Src, V: Visitor, const N: usize>(s: &mut S, v: &mut V, transport: bool, maxpad: u8) {
    let mut seqs = [0u16; N];
    let mut f = Nack::builder();
    let mut i = 0;
    while i < N {
        seqs[i] = s.u16();
        f = f.add_rtp_sequence(seqs[i]);
        i += 1;
    }
    let img = NackImg::new(seqs);
    fb(s, v, &f, &img, transport, maxpad);
    crate::forget(f);
}
