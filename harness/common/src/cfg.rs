//! Builder configurations as plain data, drawn from a [`Src`], with
//!  * `builder()`  — the real rtcp-types builder for that configuration,
//!  * `size()` / `byte(i)` — the RFC image computed by a closed-form reference encoder that
//!    shares no code with the crate (RFC 3550 §6.4–6.7, RFC 4585 §6.2–6.3, RFC 5104 §4.3.1),
//!  * `valid()` — whether the configuration is representable on the wire.
//!
//! List lengths are const generics (concrete per harness instance), field values and text
//! lengths are symbolic.
use crate::refs::*;
use crate::Src;
use rtcp_types::*;

#[inline(always)]
pub fn pad4(n: usize) -> usize {
    (n + 3) & !3
}

/// Legal padding: multiple of 4 (0 = none).
#[inline(always)]
pub fn padding_ok(p: u8) -> bool {
    p % 4 == 0
}

/// ASCII text of symbolic length `len <= L` backed by a fixed array.
#[derive(Clone, Copy)]
pub struct Text<const L: usize> {
    pub len: usize,
    pub bytes: [u8; L],
}

impl<const L: usize> Text<L> {
    /// Symbolic length in `0..=maxlen`, symbolic ASCII content.
    pub fn draw<S: Src>(s: &mut S, maxlen: usize) -> Self {
        let bytes: [u8; L] = s.bytes();
        let len = s.upto(if maxlen < L { maxlen } else { L });
        let mut i = 0;
        while i < L {
            s.assume(bytes[i] < 0x80);
            i += 1;
        }
        Text { len, bytes }
    }
    /// Symbolic length, constant content (for size-only harnesses and long texts).
    pub fn draw_len<S: Src>(s: &mut S, maxlen: usize) -> Self {
        let len = s.upto(if maxlen < L { maxlen } else { L });
        Text { len, bytes: [b'a'; L] }
    }
    /// Symbolic length; content is `k` two-byte characters (U+00E9) followed by ASCII,
    /// `k` symbolic, so that byte length and character count differ by a symbolic amount.
    /// Constant otherwise (size-only harnesses).
    pub fn draw_len_utf8<S: Src>(s: &mut S, maxlen: usize) -> Self {
        let len = s.upto(if maxlen < L { maxlen } else { L });
        let k = s.upto(L / 2);
        s.assume(2 * k <= len);
        let mut bytes = [b'a'; L];
        let mut i = 0;
        while i < L {
            if i < 2 * k {
                bytes[i] = if i % 2 == 0 { 0xc3 } else { 0xa9 };
            }
            i += 1;
        }
        Text { len, bytes }
    }
    /// As [`Text::draw`] but the first `k` (symbolic) characters are two-byte characters.
    pub fn draw_utf8<S: Src>(s: &mut S, maxlen: usize) -> Self {
        let mut t = Self::draw(s, maxlen);
        let k = s.upto(L / 2);
        s.assume(2 * k <= t.len);
        let mut i = 0;
        while i < L {
            if i < 2 * k {
                t.bytes[i] = if i % 2 == 0 { 0xc3 } else { 0xa9 };
            }
            i += 1;
        }
        t
    }
    /// Concrete length, symbolic ASCII content in the first `sym` bytes.
    pub fn fixed<S: Src, const SYM: usize>(s: &mut S, len: usize) -> Self {
        let head: [u8; SYM] = s.bytes();
        let mut bytes = [b'z'; L];
        let mut i = 0;
        while i < SYM && i < L {
            s.assume(head[i] < 0x80);
            bytes[i] = head[i];
            i += 1;
        }
        Text { len, bytes }
    }
    #[inline(always)]
    pub fn as_bytes(&self) -> &[u8] {
        &self.bytes[..self.len]
    }
    #[inline(always)]
    pub fn as_str(&self) -> &str {
        // content is ASCII by construction
        unsafe { core::str::from_utf8_unchecked(&self.bytes[..self.len]) }
    }
}

/// Raw bytes of symbolic length `len <= L`.
#[derive(Clone, Copy)]
pub struct Blob<const L: usize> {
    pub len: usize,
    pub bytes: [u8; L],
}

impl<const L: usize> Blob<L> {
    pub fn draw<S: Src>(s: &mut S, maxlen: usize) -> Self {
        let bytes: [u8; L] = s.bytes();
        let len = s.upto(if maxlen < L { maxlen } else { L });
        Blob { len, bytes }
    }
    pub fn draw_len<S: Src>(s: &mut S, maxlen: usize) -> Self {
        let len = s.upto(if maxlen < L { maxlen } else { L });
        Blob { len, bytes: [0x5a; L] }
    }
    #[inline(always)]
    pub fn as_bytes(&self) -> &[u8] {
        &self.bytes[..self.len]
    }
}

// ------------------------------------------------------------------ report blocks, SR, RR

#[derive(Clone, Copy)]
pub struct RbCfg {
    pub ssrc: u32,
    pub fraction: u8,
    pub cumulative: u32,
    pub ext_seq: u32,
    pub jitter: u32,
    pub lsr: u32,
    pub dlsr: u32,
}

impl RbCfg {
    pub fn draw<S: Src>(s: &mut S) -> Self {
        RbCfg {
            ssrc: s.u32(),
            fraction: s.u8(),
            cumulative: s.u32(),
            ext_seq: s.u32(),
            jitter: s.u32(),
            lsr: s.u32(),
            dlsr: s.u32(),
        }
    }
    pub fn builder(&self) -> ReportBlockBuilder {
        ReportBlock::builder(self.ssrc)
            .fraction_lost(self.fraction)
            .cumulative_lost(self.cumulative)
            .extended_sequence_number(self.ext_seq)
            .interarrival_jitter(self.jitter)
            .last_sender_report_timestamp(self.lsr)
            .delay_since_last_sender_report_timestamp(self.dlsr)
    }
    #[inline(always)]
    pub fn valid(&self) -> bool {
        self.cumulative <= 0xff_ffff
    }
    /// Byte `o` (< 24) of the RFC 3550 §6.4.1 report block.
    #[inline(always)]
    pub fn byte(&self, o: usize) -> u8 {
        match o / 4 {
            0 => byte32(self.ssrc, o),
            1 => {
                if o == 4 {
                    self.fraction
                } else {
                    byte32(self.cumulative & 0xff_ffff, o - 4)
                }
            }
            2 => byte32(self.ext_seq, o - 8),
            3 => byte32(self.jitter, o - 12),
            4 => byte32(self.lsr, o - 16),
            _ => byte32(self.dlsr, o - 20),
        }
    }
}

fn draw_blocks<S: Src, const NB: usize>(s: &mut S) -> [RbCfg; NB] {
    let zero = RbCfg { ssrc: 0, fraction: 0, cumulative: 0, ext_seq: 0, jitter: 0, lsr: 0, dlsr: 0 };
    let mut blocks = [zero; NB];
    let mut i = 0;
    while i < NB {
        blocks[i] = RbCfg::draw(s);
        i += 1;
    }
    blocks
}

#[derive(Clone, Copy)]
pub struct SrCfg<const NB: usize> {
    pub ssrc: u32,
    pub padding: u8,
    pub ntp: u64,
    pub rtp: u32,
    pub packets: u32,
    pub octets: u32,
    pub blocks: [RbCfg; NB],
}

impl<const NB: usize> SrCfg<NB> {
    pub fn draw<S: Src>(s: &mut S) -> Self {
        SrCfg {
            ssrc: s.u32(),
            padding: s.u8(),
            ntp: s.u64(),
            rtp: s.u32(),
            packets: s.u32(),
            octets: s.u32(),
            blocks: draw_blocks(s),
        }
    }
    pub fn builder(&self) -> SenderReportBuilder {
        let mut b = SenderReport::builder(self.ssrc)
            .padding(self.padding)
            .ntp_timestamp(self.ntp)
            .rtp_timestamp(self.rtp)
            .packet_count(self.packets)
            .octet_count(self.octets);
        let mut i = 0;
        while i < NB {
            b = b.add_report_block(self.blocks[i].builder());
            i += 1;
        }
        b
    }
    pub fn valid(&self) -> bool {
        let mut ok = NB <= 31 && padding_ok(self.padding);
        let mut i = 0;
        while i < NB {
            ok = ok && self.blocks[i].valid();
            i += 1;
        }
        ok
    }
    pub fn size(&self) -> usize {
        28 + 24 * NB + self.padding as usize
    }
    pub fn byte(&self, i: usize) -> u8 {
        let size = self.size();
        let body = size - self.padding as usize;
        if i < 4 {
            hdr_byte(i, self.padding, NB as u8, PT_SR, size)
        } else if i < 8 {
            byte32(self.ssrc, i - 4)
        } else if i < 16 {
            byte64(self.ntp, i - 8)
        } else if i < 20 {
            byte32(self.rtp, i - 16)
        } else if i < 24 {
            byte32(self.packets, i - 20)
        } else if i < 28 {
            byte32(self.octets, i - 24)
        } else if i < body {
            self.blocks[(i - 28) / 24].byte((i - 28) % 24)
        } else {
            pad_byte(i - body, self.padding)
        }
    }
}

#[derive(Clone, Copy)]
pub struct RrCfg<const NB: usize> {
    pub ssrc: u32,
    pub padding: u8,
    pub blocks: [RbCfg; NB],
}

impl<const NB: usize> RrCfg<NB> {
    pub fn draw<S: Src>(s: &mut S) -> Self {
        RrCfg { ssrc: s.u32(), padding: s.u8(), blocks: draw_blocks(s) }
    }
    pub fn builder(&self) -> ReceiverReportBuilder {
        let mut b = ReceiverReport::builder(self.ssrc).padding(self.padding);
        let mut i = 0;
        while i < NB {
            b = b.add_report_block(self.blocks[i].builder());
            i += 1;
        }
        b
    }
    pub fn valid(&self) -> bool {
        let mut ok = NB <= 31 && padding_ok(self.padding);
        let mut i = 0;
        while i < NB {
            ok = ok && self.blocks[i].valid();
            i += 1;
        }
        ok
    }
    pub fn size(&self) -> usize {
        8 + 24 * NB + self.padding as usize
    }
    pub fn byte(&self, i: usize) -> u8 {
        let size = self.size();
        let body = size - self.padding as usize;
        if i < 4 {
            hdr_byte(i, self.padding, NB as u8, PT_RR, size)
        } else if i < 8 {
            byte32(self.ssrc, i - 4)
        } else if i < body {
            self.blocks[(i - 8) / 24].byte((i - 8) % 24)
        } else {
            pad_byte(i - body, self.padding)
        }
    }
}

// ------------------------------------------------------------------ BYE

#[derive(Clone, Copy)]
pub struct ByeCfg<const NS: usize, const L: usize> {
    pub padding: u8,
    pub sources: [u32; NS],
    pub reason: Text<L>,
}

impl<const NS: usize, const L: usize> ByeCfg<NS, L> {
    pub fn draw_with<S: Src>(s: &mut S, reason: Text<L>) -> Self {
        let mut sources = [0u32; NS];
        let mut i = 0;
        while i < NS {
            sources[i] = s.u32();
            i += 1;
        }
        ByeCfg { padding: s.u8(), sources, reason }
    }
    pub fn builder(&self) -> ByeBuilder<'_> {
        let mut b = Bye::builder().padding(self.padding);
        let mut i = 0;
        while i < NS {
            b = b.add_source(self.sources[i]);
            i += 1;
        }
        if self.reason.len > 0 {
            b = b.reason(self.reason.as_str());
        }
        b
    }
    /// The same configuration reached through `reason_owned`, called after the other setters.
    pub fn builder_owned(&self) -> ByeBuilder<'static> {
        let mut b = Bye::builder().padding(self.padding);
        let mut i = 0;
        while i < NS {
            b = b.add_source(self.sources[i]);
            i += 1;
        }
        b.reason_owned(self.reason.as_str().to_owned())
    }
    pub fn valid(&self) -> bool {
        NS <= 31 && padding_ok(self.padding) && self.reason.len <= 255
    }
    #[inline(always)]
    fn reason_area(&self) -> usize {
        if self.reason.len > 0 {
            pad4(1 + self.reason.len)
        } else {
            0
        }
    }
    pub fn size(&self) -> usize {
        4 + 4 * NS + self.reason_area() + self.padding as usize
    }
    pub fn byte(&self, i: usize) -> u8 {
        let size = self.size();
        let body = size - self.padding as usize;
        let roff = 4 + 4 * NS;
        if i < 4 {
            hdr_byte(i, self.padding, NS as u8, PT_BYE, size)
        } else if i < roff {
            byte32(self.sources[(i - 4) / 4], (i - 4) % 4)
        } else if i < body {
            let o = i - roff;
            if o == 0 {
                self.reason.len as u8
            } else if o <= self.reason.len {
                self.reason.bytes[o - 1]
            } else {
                0
            }
        } else {
            pad_byte(i - body, self.padding)
        }
    }
}

// ------------------------------------------------------------------ APP

#[derive(Clone, Copy)]
pub struct AppCfg<const L: usize> {
    pub ssrc: u32,
    pub padding: u8,
    pub subtype: u8,
    pub name_len: usize,
    pub name: [u8; 5],
    pub data: Blob<L>,
}

impl<const L: usize> AppCfg<L> {
    /// `name` bytes are arbitrary but form valid UTF-8 only when ASCII; non-ASCII names are
    /// drawn from a fixed 2-byte UTF-8 character so that `&str` stays well-formed.
    pub fn draw_with<S: Src>(s: &mut S, data: Blob<L>) -> Self {
        let ssrc = s.u32();
        let padding = s.u8();
        let subtype = s.u8();
        let name_len = s.upto(5);
        let mut name: [u8; 5] = s.bytes();
        let non_ascii = s.bool();
        let mut i = 0;
        while i < 5 {
            s.assume(name[i] < 0x80);
            i += 1;
        }
        if non_ascii {
            // U+00E9 in the first two bytes
            s.assume(name_len >= 2);
            name[0] = 0xc3;
            name[1] = 0xa9;
        }
        AppCfg { ssrc, padding, subtype, name_len, name, data }
    }
    #[inline(always)]
    pub fn name_str(&self) -> &str {
        unsafe { core::str::from_utf8_unchecked(&self.name[..self.name_len]) }
    }
    pub fn builder(&self) -> AppBuilder<'_> {
        App::builder(self.ssrc, self.name_str())
            .padding(self.padding)
            .subtype(self.subtype)
            .data(self.data.as_bytes())
    }
    pub fn name_ascii(&self) -> bool {
        let mut ok = true;
        let mut i = 0;
        while i < 5 {
            ok = ok && (i >= self.name_len || self.name[i] < 0x80);
            i += 1;
        }
        ok
    }
    pub fn valid(&self) -> bool {
        self.subtype <= 31
            && self.name_len <= 4
            && self.name_ascii()
            && self.data.len % 4 == 0
            && padding_ok(self.padding)
    }
    pub fn size(&self) -> usize {
        12 + self.data.len + self.padding as usize
    }
    pub fn byte(&self, i: usize) -> u8 {
        let size = self.size();
        let body = size - self.padding as usize;
        if i < 4 {
            hdr_byte(i, self.padding, self.subtype, PT_APP, size)
        } else if i < 8 {
            byte32(self.ssrc, i - 4)
        } else if i < 12 {
            if i - 8 < self.name_len {
                self.name[i - 8]
            } else {
                0
            }
        } else if i < body {
            self.data.bytes[i - 12]
        } else {
            pad_byte(i - body, self.padding)
        }
    }
}

// ------------------------------------------------------------------ Unknown

#[derive(Clone, Copy)]
pub struct UnknownCfg<const L: usize> {
    pub type_: u8,
    pub count: u8,
    pub padding: u8,
    pub data: Blob<L>,
}

impl<const L: usize> UnknownCfg<L> {
    pub fn draw_with<S: Src>(s: &mut S, data: Blob<L>) -> Self {
        UnknownCfg { type_: s.u8(), count: s.u8(), padding: s.u8(), data }
    }
    pub fn builder(&self) -> UnknownBuilder<'_> {
        Unknown::builder(self.type_, self.data.as_bytes())
            .padding(self.padding)
            .count(self.count)
    }
    pub fn valid(&self) -> bool {
        self.count <= 31 && padding_ok(self.padding) && self.data.len % 4 == 0
    }
    pub fn size(&self) -> usize {
        4 + self.data.len + self.padding as usize
    }
    pub fn byte(&self, i: usize) -> u8 {
        let size = self.size();
        let body = size - self.padding as usize;
        if i < 4 {
            hdr_byte(i, self.padding, self.count, self.type_, size)
        } else if i < body {
            self.data.bytes[i - 4]
        } else {
            pad_byte(i - body, self.padding)
        }
    }
}

// ------------------------------------------------------------------ SDES

pub const PRIV: u8 = 8;

#[derive(Clone, Copy)]
pub struct ItemCfg<const L: usize> {
    pub type_: u8,
    pub value: Text<L>,
    pub prefix: Blob<L>,
}

impl<const L: usize> ItemCfg<L> {
    pub fn builder(&self) -> SdesItemBuilder<'_> {
        // `prefix()` is documented to have no effect on a non-PRIV item: it is always called,
        // so that a stray prefix is part of every SDES configuration the harnesses explore
        SdesItem::builder(self.type_, self.value.as_str()).prefix(self.prefix.as_bytes())
    }
    #[inline(always)]
    pub fn is_priv(&self) -> bool {
        self.type_ == PRIV
    }
    pub fn valid(&self) -> bool {
        if self.is_priv() {
            self.prefix.len + 1 + self.value.len <= 255
        } else {
            self.value.len <= 255
        }
    }
    /// Encoded size: type, length, [prefix length, prefix], value.
    pub fn size(&self) -> usize {
        if self.is_priv() {
            3 + self.prefix.len + self.value.len
        } else {
            2 + self.value.len
        }
    }
    pub fn byte(&self, o: usize) -> u8 {
        if o == 0 {
            self.type_
        } else if o == 1 {
            (self.size() - 2) as u8
        } else if self.is_priv() {
            if o == 2 {
                self.prefix.len as u8
            } else if o < 3 + self.prefix.len {
                self.prefix.bytes[o - 3]
            } else {
                self.value.bytes[o - 3 - self.prefix.len]
            }
        } else {
            self.value.bytes[o - 2]
        }
    }
}

#[derive(Clone, Copy)]
pub struct ChunkCfg<const NI: usize, const L: usize> {
    pub ssrc: u32,
    /// number of items actually used (concrete per harness instance), `<= NI`
    pub n: usize,
    pub items: [ItemCfg<L>; NI],
}

impl<const NI: usize, const L: usize> ChunkCfg<NI, L> {
    pub fn builder(&self) -> SdesChunkBuilder<'_> {
        let mut b = SdesChunk::builder(self.ssrc);
        let mut i = 0;
        while i < NI {
            if i < self.n {
                b = b.add_item(self.items[i].builder());
            }
            i += 1;
        }
        b
    }
    pub fn valid(&self) -> bool {
        let mut ok = true;
        let mut i = 0;
        while i < NI {
            ok = ok && (i >= self.n || self.items[i].valid());
            i += 1;
        }
        ok
    }
    pub fn items_size(&self) -> usize {
        let mut sz = 0;
        let mut i = 0;
        while i < NI {
            if i < self.n {
                sz += self.items[i].size();
            }
            i += 1;
        }
        sz
    }
    /// SSRC + items + at least one null octet, zero-filled to a 32-bit boundary.
    pub fn size(&self) -> usize {
        pad4(4 + self.items_size() + 1)
    }
    pub fn byte(&self, o: usize) -> u8 {
        if o < 4 {
            return byte32(self.ssrc, o);
        }
        let mut off = 4;
        let mut i = 0;
        while i < NI {
            if i < self.n {
                let sz = self.items[i].size();
                if o < off + sz {
                    return self.items[i].byte(o - off);
                }
                off += sz;
            }
            i += 1;
        }
        0
    }
}

#[derive(Clone, Copy)]
pub struct SdesCfg<const NC: usize, const NI: usize, const L: usize> {
    pub padding: u8,
    pub chunks: [ChunkCfg<NI, L>; NC],
}

impl<const NC: usize, const NI: usize, const L: usize> SdesCfg<NC, NI, L> {
    pub fn builder(&self) -> SdesBuilder<'_> {
        let mut b = Sdes::builder().padding(self.padding);
        let mut i = 0;
        while i < NC {
            b = b.add_chunk(self.chunks[i].builder());
            i += 1;
        }
        b
    }
    pub fn valid(&self) -> bool {
        let mut ok = NC <= 31 && padding_ok(self.padding);
        let mut i = 0;
        while i < NC {
            ok = ok && self.chunks[i].valid();
            i += 1;
        }
        ok
    }
    pub fn size(&self) -> usize {
        let mut sz = 4 + self.padding as usize;
        let mut i = 0;
        while i < NC {
            sz += self.chunks[i].size();
            i += 1;
        }
        sz
    }
    pub fn byte(&self, i: usize) -> u8 {
        let size = self.size();
        let body = size - self.padding as usize;
        if i < 4 {
            return hdr_byte(i, self.padding, NC as u8, PT_SDES, size);
        }
        if i >= body {
            return pad_byte(i - body, self.padding);
        }
        let mut off = 4;
        let mut c = 0;
        while c < NC {
            let sz = self.chunks[c].size();
            if i < off + sz {
                return self.chunks[c].byte(i - off);
            }
            off += sz;
            c += 1;
        }
        0
    }
}

impl<const NC: usize, const NI: usize, const L: usize> SdesCfg<NC, NI, L> {
    /// Sequential reference writer (RFC 3550 section 6.5): cheaper for the solver than calling
    /// `byte(i)` for every `i` when a whole image is needed.  Returns the size.
    pub fn render(&self, buf: &mut [u8]) -> usize {
        let size = self.size();
        let mut q = 0;
        while q < 4 {
            buf[q] = hdr_byte(q, self.padding, NC as u8, PT_SDES, size);
            q += 1;
        }
        let mut o = 4;
        let mut c = 0;
        while c < NC {
            let ch = &self.chunks[c];
            buf[o] = (ch.ssrc >> 24) as u8;
            buf[o + 1] = (ch.ssrc >> 16) as u8;
            buf[o + 2] = (ch.ssrc >> 8) as u8;
            buf[o + 3] = ch.ssrc as u8;
            let start = o;
            o += 4;
            let mut i = 0;
            while i < NI {
                if i < ch.n {
                    let it = &ch.items[i];
                    buf[o] = it.type_;
                    buf[o + 1] = (it.size() - 2) as u8;
                    o += 2;
                    if it.is_priv() {
                        buf[o] = it.prefix.len as u8;
                        o += 1;
                        buf[o..o + it.prefix.len].copy_from_slice(&it.prefix.bytes[..it.prefix.len]);
                        o += it.prefix.len;
                    }
                    buf[o..o + it.value.len].copy_from_slice(&it.value.bytes[..it.value.len]);
                    o += it.value.len;
                }
                i += 1;
            }
            // terminator and zero fill to the next 32-bit boundary
            let end = start + pad4(o - start + 1);
            buf[o..end].fill(0);
            o = end;
            c += 1;
        }
        if self.padding > 0 {
            let end = o + self.padding as usize;
            buf[o..end - 1].fill(0);
            buf[end - 1] = self.padding;
            o = end;
        }
        o
    }
}

// ------------------------------------------------------------------ feedback

/// Common part of RTPFB (205) / PSFB (206) packets.
#[derive(Clone, Copy)]
pub struct FbCfg {
    pub transport: bool,
    pub sender: u32,
    pub media: u32,
    pub padding: u8,
}

impl FbCfg {
    pub fn draw<S: Src>(s: &mut S, transport: bool) -> Self {
        FbCfg { transport, sender: s.u32(), media: s.u32(), padding: s.u8() }
    }
    pub fn pt(&self) -> u8 {
        if self.transport {
            PT_RTPFB
        } else {
            PT_PSFB
        }
    }
    pub fn size(&self, fci: usize) -> usize {
        12 + fci + self.padding as usize
    }
    /// Byte `i` of the packet given the format number, FCI size and an FCI byte function.
    #[inline(always)]
    pub fn byte(&self, i: usize, fmt: u8, fci: usize, fci_byte: impl Fn(usize) -> u8) -> u8 {
        let size = self.size(fci);
        if i < 4 {
            hdr_byte(i, self.padding, fmt, self.pt(), size)
        } else if i < 8 {
            byte32(self.sender, i - 4)
        } else if i < 12 {
            byte32(self.media, i - 8)
        } else if i < 12 + fci {
            fci_byte(i - 12)
        } else {
            pad_byte(i - 12 - fci, self.padding)
        }
    }
}

pub const FMT_NACK: u8 = 1;
pub const FMT_PLI: u8 = 1;
pub const FMT_SLI: u8 = 2;
pub const FMT_RPSI: u8 = 3;
pub const FMT_FIR: u8 = 4;

/// SLI entries (RFC 4585 §6.3.2): first 13 bits, number 13 bits, picture id 6 bits.
#[derive(Clone, Copy)]
pub struct SliCfg<const N: usize> {
    pub entries: [(u16, u16, u8); N],
}

impl<const N: usize> SliCfg<N> {
    /// Fields within their 13/13/6-bit ranges.
    pub fn draw<S: Src>(s: &mut S) -> Self {
        let mut entries = [(0u16, 0u16, 0u8); N];
        let mut i = 0;
        while i < N {
            let e = (s.u16(), s.u16(), s.u8());
            s.assume(e.0 < 0x2000 && e.1 < 0x2000 && e.2 < 0x40);
            entries[i] = e;
            i += 1;
        }
        SliCfg { entries }
    }
    pub fn builder(&self) -> SliBuilder {
        let mut b = Sli::builder();
        let mut i = 0;
        while i < N {
            let e = self.entries[i];
            b = b.add_lost_macroblock(e.0, e.1, e.2);
            i += 1;
        }
        b
    }
    pub fn size(&self) -> usize {
        4 * N
    }
    pub fn byte(&self, o: usize) -> u8 {
        let e = self.entries[o / 4];
        let w = ((e.0 as u32) << 19) | ((e.1 as u32) << 6) | e.2 as u32;
        byte32(w, o % 4)
    }
}

/// RPSI (RFC 4585 §6.3.3): PB, 0 + payload type, native bit string, zero padding bits.
#[derive(Clone, Copy)]
pub struct RpsiCfg<const L: usize> {
    pub payload_type: u8,
    pub overrun: u8,
    pub bits: Blob<L>,
}

impl<const L: usize> RpsiCfg<L> {
    pub fn draw_with<S: Src>(s: &mut S, bits: Blob<L>) -> Self {
        RpsiCfg { payload_type: s.u8(), overrun: s.u8(), bits }
    }
    pub fn builder(&self) -> RpsiBuilder<'_> {
        Rpsi::builder()
            .payload_type(self.payload_type)
            .native_data(self.bits.as_bytes(), self.overrun)
    }
    pub fn valid(&self) -> bool {
        self.payload_type <= 127 && self.overrun <= 8 && (self.bits.len > 0 || self.overrun == 0)
    }
    pub fn size(&self) -> usize {
        pad4(2 + self.bits.len)
    }
    /// Number of payload bits (bit string minus ignored trailing bits).
    pub fn nbits(&self) -> usize {
        8 * self.bits.len - self.overrun as usize
    }
    pub fn byte(&self, o: usize) -> u8 {
        let fill = self.size() - 2 - self.bits.len;
        if o == 0 {
            (8 * fill + self.overrun as usize) as u8
        } else if o == 1 {
            self.payload_type
        } else if o < 2 + self.bits.len {
            let b = self.bits.bytes[o - 2];
            if o + 1 == 2 + self.bits.len {
                // ignored trailing bits of the last byte are padding: zero
                if self.overrun >= 8 {
                    0
                } else {
                    b & !(((1u16 << self.overrun) - 1) as u8)
                }
            } else {
                b
            }
        } else {
            0
        }
    }
}

/// FIR entries (RFC 5104 §4.3.1.1): SSRC, sequence number, 24 reserved zero bits.
#[derive(Clone, Copy)]
pub struct FirCfg<const N: usize> {
    pub entries: [(u32, u8); N],
}

impl<const N: usize> FirCfg<N> {
    pub fn builder(&self) -> FirBuilder {
        let mut b = Fir::builder();
        let mut i = 0;
        while i < N {
            b = b.add_ssrc(self.entries[i].0, self.entries[i].1);
            i += 1;
        }
        b
    }
}

/// Greedy minimum (PID, BLP) cover of a strictly ascending sequence-number list
/// (RFC 4585 §6.2.1): a word starts at the first number not yet covered and covers the 16
/// following numbers.  Returns the number of words and writes them to `words`.
pub fn nack_words<const N: usize>(seqs: &[u16; N], n: usize, words: &mut [(u16, u16); N]) -> usize {
    let mut nw = 0;
    let mut i = 0;
    while i < N {
        if i < n {
            let sq = seqs[i];
            if nw > 0 && sq - words[nw - 1].0 <= 16 {
                words[nw - 1].1 |= 1 << (sq - words[nw - 1].0 - 1);
            } else {
                words[nw] = (sq, 0);
                nw += 1;
            }
        }
        i += 1;
    }
    nw
}
