//! Reference readers/encoders written from the RFC text (RFC 3550 §6, RFC 4585 §6,
//! RFC 5104 §4.3), not from the crate.  Closed-form, allocation-free.

/// Big-endian u16 at `o`.
#[inline(always)]
pub fn be16(d: &[u8], o: usize) -> u16 {
    ((d[o] as u16) << 8) | d[o + 1] as u16
}

/// Big-endian u32 at `o`.
#[inline(always)]
pub fn be32(d: &[u8], o: usize) -> u32 {
    ((d[o] as u32) << 24) | ((d[o + 1] as u32) << 16) | ((d[o + 2] as u32) << 8) | d[o + 3] as u32
}

/// Big-endian u64 at `o`.
#[inline(always)]
pub fn be64(d: &[u8], o: usize) -> u64 {
    ((be32(d, o) as u64) << 32) | be32(d, o + 4) as u64
}

/// Byte `k` (0 = most significant) of a big-endian u32.
#[inline(always)]
pub fn byte32(v: u32, k: usize) -> u8 {
    (v >> (8 * (3 - k))) as u8
}

/// Byte `k` (0 = most significant) of a big-endian u64.
#[inline(always)]
pub fn byte64(v: u64, k: usize) -> u8 {
    (v >> (8 * (7 - k))) as u8
}

/// RFC 3550 §6.4.1 common header fields of a byte string of at least 4 bytes.
pub struct Hdr {
    pub version: u8,
    pub pad_bit: bool,
    pub count: u8,
    pub pt: u8,
    /// the 16-bit length field
    pub words_minus_one: u16,
}

impl Hdr {
    #[inline(always)]
    pub fn read(d: &[u8]) -> Hdr {
        Hdr {
            version: d[0] >> 6,
            pad_bit: d[0] & 0x20 != 0,
            count: d[0] & 0x1f,
            pt: d[1],
            words_minus_one: be16(d, 2),
        }
    }
    /// Length in bytes announced by the header.
    #[inline(always)]
    pub fn bytes(&self) -> usize {
        4 * (self.words_minus_one as usize + 1)
    }
}

/// Byte `i` (< 4) of the RFC 3550 common header of a packet of `size` bytes.
#[inline(always)]
pub fn hdr_byte(i: usize, padding: u8, count: u8, pt: u8, size: usize) -> u8 {
    let words = (size / 4 - 1) as u16;
    match i {
        0 => 0x80 | if padding > 0 { 0x20 } else { 0 } | (count & 0x1f),
        1 => pt,
        2 => (words >> 8) as u8,
        _ => words as u8,
    }
}

/// Byte `j` (< padding) of an RFC 3550 padding trailer of `padding` bytes.
#[inline(always)]
pub fn pad_byte(j: usize, padding: u8) -> u8 {
    if j + 1 == padding as usize {
        padding
    } else {
        0
    }
}

pub const PT_SR: u8 = 200;
pub const PT_RR: u8 = 201;
pub const PT_SDES: u8 = 202;
pub const PT_BYE: u8 = 203;
pub const PT_APP: u8 = 204;
pub const PT_RTPFB: u8 = 205;
pub const PT_PSFB: u8 = 206;
