//! C08 — a packet is accepted only if it is exactly and consistently framed.
use common::refs::*;
use common::{forget, vcover, Src};
use rtcp_types::prelude::*;
use rtcp_types::*;

/// What C08 demands of an accepted string, from the RFC header alone.
fn framed(d: &[u8], min: usize, pt: Option<u8>) -> bool {
    if d.len() < min || d.len() < 4 {
        return false;
    }
    let h = Hdr::read(d);
    h.version == 2
        && pt.map_or(true, |p| h.pt == p)
        && h.bytes() == d.len()
}

macro_rules! typed {
    ($fname:ident, $ty:ty, $min:expr, $pt:expr, |$d:ident, $p:ident| $extra:block) => {
        pub fn $fname<S: Src, const N: usize>(s: &mut S) {
            let data: [u8; N] = s.bytes();
            let len = s.upto(N);
            let $d = &data[..len];
            if let Ok($p) = <$ty>::parse($d) {
                assert!(framed($d, $min, Some($pt)));
                let h = Hdr::read($d);
                // padding bit comes with a non-zero final byte
                assert!(!h.pad_bit || $d[len - 1] != 0);
                // header accessors return exactly those header values
                assert!($p.version() == 2);
                assert!($p.type_() == $pt);
                assert!($p.count() == h.count);
                assert!($p.subtype() == h.count);
                assert!($p.length() == len);
                assert!($p.padding() == if h.pad_bit { Some($d[len - 1]) } else { None });
                $extra
                vcover!(h.pad_bit, "accepted with padding");
                vcover!(true, "accepted");
                forget($p);
            }
        }
    };
}

typed!(app, App, 12, PT_APP, |d, p| {});
typed!(bye, Bye, 4, PT_BYE, |d, p| {
    // body large enough for the announced sources
    assert!(d.len() >= 4 + 4 * (d[0] & 0x1f) as usize);
});
typed!(rr, ReceiverReport, 8, PT_RR, |d, p| {
    assert!(d.len() >= 8 + 24 * (d[0] & 0x1f) as usize);
    assert!(p.n_reports() == d[0] & 0x1f);
});
typed!(sr, SenderReport, 28, PT_SR, |d, p| {
    assert!(d.len() >= 28 + 24 * (d[0] & 0x1f) as usize);
    assert!(p.n_reports() == d[0] & 0x1f);
});
typed!(tfb, TransportFeedback, 12, PT_RTPFB, |d, p| {});
typed!(pfb, PayloadFeedback, 12, PT_PSFB, |d, p| {});
typed!(sdes, Sdes, 4, PT_SDES, |d, p| {});

/// Unknown: size, version and length-field conditions only.
pub fn unknown<S: Src, const N: usize>(s: &mut S) {
    let data: [u8; N] = s.bytes();
    let len = s.upto(N);
    let d = &data[..len];
    if let Ok(p) = Unknown::parse(d) {
        assert!(framed(d, 4, None));
        let h = Hdr::read(d);
        assert!(p.version() == 2);
        assert!(p.type_() == h.pt);
        assert!(p.count() == h.count);
        assert!(p.length() == len);
        vcover!(true, "accepted");
    }
}

/// Generic parser: same guarantees for whichever type it dispatches to.
/// SDES-typed inputs are cut here (own harness `generic_sdes`) so that the SDES loops
/// can be given bound 1; the unwinding assertion fails if the cut were wrong.
pub fn generic<S: Src, const N: usize, const SDES: bool>(s: &mut S) {
    let data: [u8; N] = s.bytes();
    let len = s.upto(N);
    let d = &data[..len];
    if len >= 2 {
        s.assume((d[1] == PT_SDES) == SDES);
    }
    if let Ok(p) = Packet::parse(d) {
        let h = Hdr::read(d);
        let (min, pt) = match h.pt {
            PT_SR => (28, Some(PT_SR)),
            PT_RR => (8, Some(PT_RR)),
            PT_SDES => (4, Some(PT_SDES)),
            PT_BYE => (4, Some(PT_BYE)),
            PT_APP => (12, Some(PT_APP)),
            PT_RTPFB => (12, Some(PT_RTPFB)),
            PT_PSFB => (12, Some(PT_PSFB)),
            _ => (4, None),
        };
        assert!(framed(d, min, pt));
        let known = pt.is_some();
        assert!(p.is_unknown() == !known);
        if known {
            assert!(!h.pad_bit || d[len - 1] != 0);
        }
        match h.pt {
            PT_SR => { assert!(len >= 28 + 24 * h.count as usize) }
            PT_RR => { assert!(len >= 8 + 24 * h.count as usize) }
            PT_BYE => { assert!(len >= 4 + 4 * h.count as usize) }
            _ => {}
        }
        assert!(p.version() == 2);
        assert!(p.type_() == h.pt);
        assert!(p.count() == h.count);
        assert!(p.length() == len);
        vcover!(known, "accepted known type");
        vcover!(SDES || !known, "accepted unknown type");
        forget(p);
    }
}

common::register! {
    q_app = app::<_, 288> => 2,
    q_bye = bye::<_, 288> => 2,
    q_rr = rr::<_, 288> => 2,
    q_sr = sr::<_, 288> => 2,
    q_tfb = tfb::<_, 288> => 2,
    q_pfb = pfb::<_, 288> => 2,
    q_sdes = sdes::<_, 16> => 2,
    q_unknown = unknown::<_, 288> => 2,
    q_generic = generic::<_, 64, false> => 2,
    q_generic_sdes = generic::<_, 16, true> => 2,
    t_app = app::<_, 600> => 2,
    t_bye = bye::<_, 600> => 2,
    t_rr = rr::<_, 600> => 2,
    t_sr = sr::<_, 600> => 2,
    t_tfb = tfb::<_, 600> => 2,
    t_pfb = pfb::<_, 600> => 2,
    t_sdes = sdes::<_, 24> => 2,
    t_unknown = unknown::<_, 600> => 2,
    t_generic = generic::<_, 288, false> => 2,
    t_generic_sdes = generic::<_, 24, true> => 2,
}
