#[cfg(not(kani))]
fn main() {
    common::replay_main(c08::REGISTRY)
}
#[cfg(kani)]
fn main() {}
