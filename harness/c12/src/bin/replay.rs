#[cfg(not(kani))]
fn main() {
    common::replay_main_multi(c12::REGISTRIES)
}
#[cfg(kani)]
fn main() {}
