//! C12 — generic dispatch and conversions agree with the typed parsers.
//!
//! Typed views are compared through their accessors and slice pointers (a "fingerprint"),
//! never with `==` on the view (a memcmp loop over a symbolic length).
use common::refs::*;
use common::{forget, vcover, Src};
use rtcp_types::prelude::*;
use rtcp_types::RtcpParseError as E;
use rtcp_types::*;

fn known(pt: u8) -> bool {
    (PT_SR..=PT_PSFB).contains(&pt)
}

/// The variant is the one named by the packet-type byte.
fn variant_matches(pt: u8, p: &Packet<'_>) -> bool {
    match p {
        Packet::Sr(_) => pt == PT_SR,
        Packet::Rr(_) => pt == PT_RR,
        Packet::Sdes(_) => pt == PT_SDES,
        Packet::Bye(_) => pt == PT_BYE,
        Packet::App(_) => pt == PT_APP,
        Packet::TransportFeedback(_) => pt == PT_RTPFB,
        Packet::PayloadFeedback(_) => pt == PT_PSFB,
        Packet::Unknown(_) => !known(pt),
    }
}

type Fp = (u32, u64, u32, u8, usize, usize, Option<u8>, u32);

fn w(b: [u8; 4]) -> u32 {
    u32::from_be_bytes(b)
}

fn fp_app(p: &App<'_>) -> Fp {
    (p.ssrc(), 0, 0, p.subtype(), p.data().as_ptr() as usize, p.data().len(), p.padding(), w(p.name()))
}
fn fp_bye(p: &Bye<'_>) -> Fp {
    let (rp, rl) = p.reason().map_or((0, usize::MAX), |r| (r.as_ptr() as usize, r.len()));
    (p.ssrcs().next().unwrap_or(0), 0, 0, p.count(), rp, rl, p.padding(), w(p.header_data()))
}
fn fp_rr(p: &ReceiverReport<'_>) -> Fp {
    (p.ssrc(), 0, 0, p.n_reports(), p.length(), 0, p.padding(), w(p.header_data()))
}
fn fp_sr(p: &SenderReport<'_>) -> Fp {
    (p.ssrc(), p.ntp_timestamp(), p.rtp_timestamp(), p.n_reports(), p.packet_count() as usize, p.octet_count() as usize, p.padding(), w(p.header_data()))
}
fn fp_tfb(p: &TransportFeedback<'_>) -> Fp {
    (p.sender_ssrc(), 0, p.media_ssrc(), p.count(), p.length(), 0, p.padding(), w(p.header_data()))
}
fn fp_pfb(p: &PayloadFeedback<'_>) -> Fp {
    (p.sender_ssrc(), 0, p.media_ssrc(), p.count(), p.length(), 0, p.padding(), w(p.header_data()))
}
fn fp_sdes(p: &Sdes<'_>) -> Fp {
    let first = p.chunks().next().map_or(0, |c| c.ssrc());
    (first, 0, 0, p.count(), p.chunks().count(), p.length(), p.padding(), w(p.header_data()))
}

macro_rules! target {
    ($fname:ident, $ty:ty, $pt:expr, $fp:ident) => {
        /// Target type of the conversions: see the module documentation.
        pub fn $fname<S: Src, const N: usize, const SDES_IN: bool>(s: &mut S) {
            let data: [u8; N] = s.bytes();
            let len = s.range(4, N);
            let d = &data[..len];
            s.assume((d[1] == PT_SDES) == SDES_IN);
            let pt = d[1];
            let can_match = SDES_IN == ($pt == PT_SDES);
            let can_other = !(SDES_IN && $pt == PT_SDES);
            let mut seen = (false, false, false, false);
            let typed = <$ty>::parse(d);
            match Packet::parse(d) {
                Ok(p) => {
                    assert!(variant_matches(pt, &p), "variant is not the one named by the type byte");
                    let conv = p.try_as::<$ty>();
                    if pt == $pt {
                        // matching variant: the already-parsed value, equal to the typed parser's
                        let a = conv.expect("conversion of the matching variant failed");
                        let b = typed.expect("generic parser accepted what the typed parser rejects");
                        assert!($fp(&a) == $fp(&b));
                        seen.0 = true;
                        forget((a, b));
                    } else if known(pt) {
                        match conv {
                            Err(e) => assert!(e == E::PacketTypeMismatch { actual: pt, requested: $pt }),
                            Ok(_) => panic!("a different known variant converted"),
                        }
                        seen.1 = true;
                        forget(typed);
                    } else {
                        // unknown packet: exactly what the typed parser returns on the same bytes
                        match (conv, typed) {
                            (Ok(a), Ok(b)) => {
                                assert!($fp(&a) == $fp(&b));
                                forget((a, b));
                            }
                            (Err(a), Err(b)) => assert!(a == b),
                            _ => panic!("conversion of an unknown packet differs from the typed parser"),
                        }
                        seen.2 = true;
                    }
                    // by-value conversion agrees with the by-reference one
                    let by_val: Result<$ty, E> = p.try_into();
                    if pt == $pt {
                        let a = by_val.expect("by-value conversion of the matching variant failed");
                        forget(a);
                    } else if known(pt) {
                        match by_val {
                            Err(e) => assert!(e == E::PacketTypeMismatch { actual: pt, requested: $pt }),
                            Ok(_) => panic!("a different known variant converted by value"),
                        }
                    } else {
                        forget(by_val);
                    }
                }
                Err(e) => {
                    // the outcome of the generic parser is the typed parser's outcome
                    if pt == $pt {
                        match typed {
                            Err(t) => assert!(t == e),
                            Ok(_) => panic!("generic parser rejected what the typed parser accepts"),
                        }
                        seen.3 = true;
                    } else {
                        forget(typed);
                    }
                }
            }
            vcover!(!can_match || seen.0, "matching variant converted");
            vcover!(!can_other || seen.1, "different known variant refused");
            vcover!(SDES_IN || seen.2, "unknown packet converted through the typed parser");
            vcover!(!can_match || seen.3, "same rejection");
        }
    };
}

target!(to_app, App, PT_APP, fp_app);
target!(to_bye, Bye, PT_BYE, fp_bye);
target!(to_rr, ReceiverReport, PT_RR, fp_rr);
target!(to_sr, SenderReport, PT_SR, fp_sr);
target!(to_tfb, TransportFeedback, PT_RTPFB, fp_tfb);
target!(to_pfb, PayloadFeedback, PT_PSFB, fp_pfb);
target!(to_sdes, Sdes, PT_SDES, fp_sdes);

/// SDES-typed input converted to `Sdes` by value (no clone of the chunk vectors): the variant,
/// the acceptance and the view agree with the typed parser.
pub fn sdes_by_value<S: Src, const N: usize>(s: &mut S) {
    let data: [u8; N] = s.bytes();
    let len = s.range(4, N);
    let d = &data[..len];
    s.assume(d[1] == PT_SDES);
    let typed = Sdes::parse(d);
    match Packet::parse(d) {
        Ok(p) => {
            assert!(matches!(p, Packet::Sdes(_)), "variant is not the one named by the type byte");
            let conv: Result<Sdes, E> = p.try_into();
            let a = conv.expect("conversion of the matching variant failed");
            let b = typed.expect("generic parser accepted what the typed parser rejects");
            assert!(a.count() == b.count() && a.padding() == b.padding() && a.length() == b.length());
            assert!(a.chunks().count() == b.chunks().count());
            vcover!(a.chunks().count() > 0, "SDES with a chunk converted");
            forget((a, b));
        }
        Err(e) => match typed {
            Err(t) => {
                assert!(t == e);
                vcover!(true, "same rejection");
            }
            Ok(_) => panic!("generic parser rejected what the typed parser accepts"),
        },
    }
}

/// Unrecognised types yield an unknown packet exposing the input unchanged, with exactly
/// the unknown-packet parser's outcome.
pub fn unknown<S: Src, const N: usize>(s: &mut S) {
    let data: [u8; N] = s.bytes();
    let len = s.range(4, N);
    let d = &data[..len];
    s.assume(!known(d[1]));
    match (Packet::parse(d), Unknown::parse(d)) {
        (Ok(Packet::Unknown(u)), Ok(v)) => {
            assert!(u.data().as_ptr() == d.as_ptr() && u.data().len() == len);
            assert!(v.data().as_ptr() == d.as_ptr() && v.data().len() == len);
            vcover!(true, "unknown packet exposes the input");
        }
        (Err(a), Err(b)) => assert!(a == b),
        _ => panic!("generic parser and unknown-packet parser disagree"),
    }
}

common::register! {
    q_to_app = to_app::<_, 32, false> => 2,
    q_to_bye = to_bye::<_, 32, false> => 2,
    q_to_rr = to_rr::<_, 32, false> => 2,
    q_to_sr = to_sr::<_, 32, false> => 2,
    q_to_tfb = to_tfb::<_, 32, false> => 2,
    q_to_pfb = to_pfb::<_, 32, false> => 2,
    q_to_sdes = to_sdes::<_, 32, false> => 2,
    q_sdes_to_bye = to_bye::<_, 12, true> => 2,
    q_sdes_by_value = sdes_by_value::<_, 8> => 2,
    t_sdes_by_value = sdes_by_value::<_, 12> => 2,
    q_unknown = unknown::<_, 64> => 2,
    t_to_app = to_app::<_, 128, false> => 2,
    t_to_bye = to_bye::<_, 128, false> => 2,
    t_to_rr = to_rr::<_, 128, false> => 2,
    t_to_sr = to_sr::<_, 128, false> => 2,
    t_to_tfb = to_tfb::<_, 128, false> => 2,
    t_to_pfb = to_pfb::<_, 128, false> => 2,
    t_to_sdes = to_sdes::<_, 128, false> => 2,
    t_sdes_to_app = to_app::<_, 16, true> => 2,
    t_unknown = unknown::<_, 256> => 2,
}

#[cfg(not(kani))]
pub const REGISTRIES: &[&[(&str, fn(&mut common::R))]] = &[REGISTRY];
