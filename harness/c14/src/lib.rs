//! C14 — a compound is the concatenation of its members and parses back to them.
//!
//! Each member is also built alone (its own `write_into` into its own buffer).  The compound
//! must succeed exactly when every member is valid and no member other than the last requests
//! padding; its size is the sum; byte `i` (symbolic) is the byte of the member image it falls
//! into; parsing it as a compound yields, for tile `k`, what the generic parser yields for
//! member `k` alone.
use common::cfg::*;
use common::{forget, vcover, Src};
use rtcp_types::prelude::*;
use rtcp_types::*;

/// A writer defined outside the crate.
#[derive(Debug, Clone, Copy)]
pub struct Foreign {
    pub words: usize,
    pub padding: u8,
    pub fill: u8,
    /// report "no padding" as `Some(0)` instead of `None` (both mean that none is requested)
    pub some_zero: bool,
}

impl RtcpPacketWriter for Foreign {
    fn calculate_size(&self) -> Result<usize, RtcpWriteError> {
        rtcp_types::utils::writer::check_padding(self.padding)?;
        Ok(4 + 4 * self.words + self.padding as usize)
    }
    fn write_into_unchecked(&self, buf: &mut [u8]) -> usize {
        let n = 4 + 4 * self.words + self.padding as usize;
        buf[0] = 0x80 | if self.padding > 0 { 0x20 } else { 0 };
        buf[1] = 199;
        buf[2] = ((n / 4 - 1) >> 8) as u8;
        buf[3] = (n / 4 - 1) as u8;
        buf[4..4 + 4 * self.words].fill(self.fill);
        if self.padding > 0 {
            buf[4 + 4 * self.words..n].fill(0);
            buf[n - 1] = self.padding;
        }
        n
    }
    fn get_padding(&self) -> Option<u8> {
        if self.padding == 0 {
            if self.some_zero {
                Some(0)
            } else {
                None
            }
        } else {
            Some(self.padding)
        }
    }
}

const MB: usize = 40;

/// One member built alone: its result and image.
struct Alone {
    r: Result<usize, RtcpWriteError>,
    img: [u8; MB],
    padded: bool,
}

/// `padding` is the padding the member was *configured* with (for a nested compound: that of
/// its last member); the crate's own `get_padding` is not consulted by the oracle.
fn alone<W: RtcpPacketWriter>(w: &W, padding: u8) -> Alone {
    let mut img = [0u8; MB];
    let r = w.write_into(&mut img);
    assert!(!matches!(r, Err(RtcpWriteError::OutputTooSmall(_))), "HARNESS: member image buffer too small");
    Alone { r, img, padded: padding > 0 }
}

fn same_packet(a: &Result<Packet<'_>, RtcpParseError>, b: &Result<Packet<'_>, RtcpParseError>) {
    match (a, b) {
        (Ok(x), Ok(y)) => {
            assert!(core::mem::discriminant(x) == core::mem::discriminant(y));
            assert!(u32::from_be_bytes(x.header_data()) == u32::from_be_bytes(y.header_data()));
            match (x, y) {
                (Packet::App(p), Packet::App(q)) => assert!(p.ssrc() == q.ssrc() && p.data().len() == q.data().len()),
                (Packet::Bye(p), Packet::Bye(q)) => assert!(p.ssrcs().next() == q.ssrcs().next() && p.reason().map(|r| r.len()) == q.reason().map(|r| r.len())),
                (Packet::Rr(p), Packet::Rr(q)) => assert!(p.ssrc() == q.ssrc()),
                (Packet::Sr(p), Packet::Sr(q)) => assert!(p.ssrc() == q.ssrc() && p.ntp_timestamp() == q.ntp_timestamp()),
                (Packet::Unknown(p), Packet::Unknown(q)) => assert!(p.data().len() == q.data().len()),
                _ => {}
            }
        }
        (Err(x), Err(y)) => assert!(x == y),
        _ => panic!("tile parses differently from the member alone"),
    }
}

/// Build side of C14: acceptance, size and bytes of a compound `c` of members built alone
/// as `m`.  Returns the written bytes on success.
fn check_build<S: Src, const N: usize>(s: &mut S, c: &CompoundBuilder<'_>, m: &[Alone; N], buf: &mut [u8; 128]) -> Option<usize> {
    let i = s.upto(N * MB);
    let r = c.write_into(buf);
    let mut all_ok = true;
    let mut non_last_padding = false;
    let mut total = 0;
    let mut q = 0;
    while q < N {
        match m[q].r {
            Ok(n) => total += n,
            Err(_) => all_ok = false,
        }
        if q + 1 < N && m[q].padded {
            non_last_padding = true;
        }
        q += 1;
    }
    vcover!(N < 2 || (all_ok && non_last_padding), "non-last padding case reached");
    match r {
        Ok(n) => {
            assert!(all_ok && !non_last_padding, "compound accepted although a member is invalid or a non-last member is padded");
            assert!(n == total, "compound size is not the sum of its members");
            if i < n {
                let mut off = 0;
                let mut q = 0;
                while q < N {
                    let sz = m[q].r.as_ref().ok().copied().unwrap_or(0);
                    if i >= off && i < off + sz {
                        assert!(buf[i] == m[q].img[i - off], "compound byte differs from the member image");
                    }
                    off += sz;
                    q += 1;
                }
            }
            vcover!(N == 0 || (i < n && i >= 4), "a byte compared");
            Some(n)
        }
        Err(e) => {
            assert!(!all_ok || non_last_padding, "compound rejected although every member is valid and only the last is padded");
            assert!(!matches!(e, RtcpWriteError::OutputTooSmall(_)));
            None
        }
    }
}

/// Parse side of C14: the built compound yields one packet per member, in order, and packet
/// `K` equals the member parsed on its own.
fn check_parse<const N: usize, const K: usize>(buf: &[u8; 128], n: usize, m: &[Alone; N]) {
    let mut it = Compound::parse(&buf[..n]).expect("own compound parser rejects the built compound");
    let mut q = 0;
    while q < N {
        let got = it.next().expect("fewer packets than members");
        assert!(got.is_ok(), "a built member does not parse");
        if q == K {
            let sz = m[q].r.as_ref().ok().copied().unwrap_or(0);
            let want = Packet::parse(&m[q].img[..sz]);
            same_packet(&got, &want);
            forget(want);
        }
        forget(got);
        q += 1;
    }
    assert!(it.next().is_none(), "more packets than members");
}

fn check<S: Src, const N: usize, const K: usize>(s: &mut S, c: &CompoundBuilder<'_>, m: &[Alone; N], parse_back: bool) {
    let mut buf = [0xA5u8; 128];
    let mut parsed = false;
    if let Some(n) = check_build::<S, N>(s, c, m, &mut buf) {
        if parse_back && N > 0 {
            check_parse::<N, K>(&buf, n, m);
            parsed = true;
        }
    }
    vcover!(!parse_back || N == 0 || parsed, "parsed back");
}

fn draw_bye<S: Src>(s: &mut S) -> ByeCfg<1, 6> {
    let reason = Text::<6>::draw(s, 6);
    let c = ByeCfg::<1, 6>::draw_with(s, reason);
    s.assume(c.padding <= 8);
    c
}
fn draw_app<S: Src>(s: &mut S) -> AppCfg<8> {
    let data = Blob::<8>::draw(s, 8);
    let c = AppCfg::draw_with(s, data);
    s.assume(c.padding <= 8);
    c
}
fn draw_rr<S: Src>(s: &mut S) -> RrCfg<1> {
    let c = RrCfg::<1>::draw(s);
    s.assume(c.padding <= 8);
    c
}
fn draw_sr<S: Src>(s: &mut S) -> SrCfg<0> {
    let c = SrCfg::<0>::draw(s);
    s.assume(c.padding <= 8);
    c
}
fn draw_unknown<S: Src>(s: &mut S) -> UnknownCfg<8> {
    let data = Blob::<8>::draw(s, 8);
    let c = UnknownCfg::draw_with(s, data);
    s.assume(c.padding <= 8 && !(200..=206).contains(&c.type_));
    c
}

pub fn empty<S: Src>(s: &mut S) {
    let c = Compound::builder();
    check::<S, 0, 0>(s, &c, &[], false);
    vcover!(c.calculate_size() == Ok(0), "empty compound");
}

pub fn rr_bye<S: Src, const PARSE: bool, const K: usize>(s: &mut S) {
    let (a, b) = (draw_rr(s), draw_bye(s));
    let m = [alone(&a.builder(), a.padding), alone(&b.builder(), b.padding)];
    let c = Compound::builder().add_packet(a.builder()).add_packet(b.builder());
    check::<S, 2, K>(s, &c, &m, PARSE);
    forget(c);
}

pub fn bye_app<S: Src, const PARSE: bool, const K: usize>(s: &mut S) {
    let (a, b) = (draw_bye(s), draw_app(s));
    let m = [alone(&a.builder(), a.padding), alone(&b.builder(), b.padding)];
    let c = Compound::builder().add_packet(a.builder()).add_packet(b.builder());
    check::<S, 2, K>(s, &c, &m, PARSE);
    forget(c);
}

pub fn app_sr_unknown<S: Src>(s: &mut S) {
    let (a, b, u) = (draw_app(s), draw_sr(s), draw_unknown(s));
    let m = [alone(&a.builder(), a.padding), alone(&b.builder(), b.padding), alone(&u.builder(), u.padding)];
    let c = Compound::builder().add_packet(a.builder()).add_packet(b.builder()).add_packet(u.builder());
    check::<S, 3, 2>(s, &c, &m, false);
    forget(c);
}

pub fn unknown_rr<S: Src, const PARSE: bool>(s: &mut S) {
    let (u, a) = (draw_unknown(s), draw_rr(s));
    let m = [alone(&u.builder(), u.padding), alone(&a.builder(), a.padding)];
    let c = Compound::builder().add_packet(u.builder()).add_packet(a.builder());
    check::<S, 2, 0>(s, &c, &m, PARSE);
    forget(c);
}

pub fn single<S: Src>(s: &mut S) {
    let a = draw_app(s);
    let m = [alone(&a.builder(), a.padding)];
    let c = Compound::builder().add_packet(a.builder());
    check::<S, 1, 0>(s, &c, &m, true);
    forget(c);
}

/// Feedback member (PLI / SLI) and a PacketBuilder-wrapped member.
pub fn fb_wrapped<S: Src, const WRAP_FIRST: bool>(s: &mut S) {
    let fbc = FbCfg::draw(s, false);
    s.assume(fbc.padding <= 8);
    let sli = SliCfg::<1>::draw(s).builder();
    let b = draw_bye(s);
    let mk = || PayloadFeedback::builder(&sli).sender_ssrc(fbc.sender).media_ssrc(fbc.media).padding(fbc.padding);
    let m = [alone(&mk(), fbc.padding), alone(&b.builder(), b.padding)];
    let c = if WRAP_FIRST {
        Compound::builder().add_packet(PacketBuilder::from(mk())).add_packet(b.builder())
    } else {
        Compound::builder().add_packet(mk()).add_packet(PacketBuilder::from(b.builder()))
    };
    check::<S, 2, 0>(s, &c, &m, false);
    vcover!(fbc.padding > 0, "padded feedback in a non-last position");
    forget(c);
}

/// SDES member in last and non-last position.
pub fn sdes_member<S: Src, const LAST: bool>(s: &mut S) {
    let ssrc = s.u32();
    let pad = s.u8();
    s.assume(pad <= 8);
    let a = draw_rr(s);
    let mk = || Sdes::builder().padding(pad).add_chunk(SdesChunk::builder(ssrc).add_item(SdesItem::builder(SdesItem::CNAME, "ab")));
    let (m, c) = if LAST {
        ([alone(&a.builder(), a.padding), alone(&mk(), pad)], Compound::builder().add_packet(a.builder()).add_packet(mk()))
    } else {
        ([alone(&mk(), pad), alone(&a.builder(), a.padding)], Compound::builder().add_packet(mk()).add_packet(a.builder()))
    };
    check::<S, 2, 1>(s, &c, &m, false);
    forget(c);
}

/// A nested compound is a member like any other; so is a third-party writer.
pub fn nested_foreign<S: Src>(s: &mut S) {
    let a = RrCfg::<0>::draw(s);
    s.assume(a.padding <= 8);
    let b = draw_bye(s);
    let f = Foreign { words: s.upto(2), padding: s.u8(), fill: s.u8(), some_zero: s.bool() };
    s.assume(f.padding <= 8);
    let inner = || Compound::builder().add_packet(a.builder()).add_packet(f);
    let m = [alone(&inner(), f.padding), alone(&b.builder(), b.padding)];
    let c = Compound::builder().add_packet(inner()).add_packet(b.builder());
    // the nested compound is two tiles on the wire: compare bytes, size and acceptance only
    let i = s.upto(2 * MB);
    let mut buf = [0u8; 128];
    let r = c.write_into(&mut buf);
    match (r, &m[0].r, &m[1].r) {
        (Ok(n), Ok(x), Ok(y)) => {
            assert!(!m[0].padded, "non-last padding accepted");
            assert!(n == x + y);
            if i < *x {
                assert!(buf[i] == m[0].img[i]);
            } else if i < n {
                assert!(buf[i] == m[1].img[i - x]);
            }
            let mut it = Compound::parse(&buf[..n]).expect("own compound parser rejects the built compound");
            assert!(it.next().is_some() && it.next().is_some() && it.next().is_some() && it.next().is_none());
            vcover!(i >= *x && i < n, "byte of the member after the nested compound");
        }
        (Ok(_), _, _) => panic!("compound accepted although a member is invalid"),
        (Err(_), Ok(_), Ok(_)) => assert!(m[0].padded, "compound rejected although members are valid"),
        _ => {}
    }
    forget(c);
}

/// A third-party writer in a non-last position, reporting "no padding" as `None` or `Some(0)`.
pub fn foreign_first<S: Src>(s: &mut S) {
    let f = Foreign { words: s.upto(2), padding: s.u8(), fill: s.u8(), some_zero: s.bool() };
    s.assume(f.padding <= 8);
    let a = draw_rr(s);
    let m = [alone(&f, f.padding), alone(&a.builder(), a.padding)];
    let c = Compound::builder().add_packet(f).add_packet(a.builder());
    check::<S, 2, 0>(s, &c, &m, false);
    vcover!(f.padding == 0 && f.some_zero, "Some(0) in a non-last position");
    forget(c);
}

common::register! {
    q_foreign_first = foreign_first => 4,
    q_empty = empty => 2,
    q_single = single => 3,
    q_rr_bye = rr_bye::<_, false, 0> => 4,
    q_rr_bye_parse_1 = rr_bye::<_, true, 1> => 4,
    q_bye_app = bye_app::<_, false, 0> => 4,
    q_unknown_rr = unknown_rr::<_, false> => 4,
    q_app_sr_unknown = app_sr_unknown => 5,
    q_fb_wrapped = fb_wrapped::<_, false> => 4,
    t_fb_wrapped_first = fb_wrapped::<_, true> => 4,
    t_sdes_last = sdes_member::<_, true> => 4,
    q_sdes_first = sdes_member::<_, false> => 4,
    q_nested_foreign = nested_foreign => 4,
    t_rr_bye_parse_0 = rr_bye::<_, true, 0> => 4,
    t_bye_app_parse_0 = bye_app::<_, true, 0> => 4,
    t_bye_app_parse_1 = bye_app::<_, true, 1> => 4,
    t_unknown_rr_parse = unknown_rr::<_, true> => 4,
}

#[cfg(not(kani))]
pub const REGISTRIES: &[&[(&str, fn(&mut common::R))]] = &[REGISTRY];
