#[cfg(not(kani))]
fn main() {
    common::replay_main_multi(c14::REGISTRIES)
}
#[cfg(kani)]
fn main() {}
