//! C17 — writers define every byte they claim and touch nothing else.
//!
//! Two buffers `a`, `b` of the same symbolic length with independent arbitrary contents.
//! The prior contents at one symbolic index `i` are remembered; after `write_into`:
//!  * same result for both buffers;
//!  * `i < n`  : `a[i] == b[i]` (written bytes do not depend on prior contents);
//!  * `i >= n` : `a[i]` unchanged;
//!  * on error : `a[i]` unchanged.
//! The solver covers every index and every pair of prior contents.
use common::cfg::*;
use common::shapes::{self, Image, Visitor};
use common::{vcover, Src};
use rtcp_types::prelude::*;
use rtcp_types::*;

/// `accepts`: false for instances whose configuration is rejected by construction.
pub struct TwoBuffers<const B: usize> {
    pub accepts: bool,
}

fn two_buffers<S: Src, W: RtcpPacketWriter, const B: usize>(s: &mut S, w: &W, accepts: bool) {
    let mut a: [u8; B] = s.bytes();
    let mut b: [u8; B] = s.bytes();
    let buflen = s.upto(B);
    let i = s.upto(B - 1);
    s.assume(i < buflen);
    let (a0, b0) = (a[i], b[i]);
    let ra = w.write_into(&mut a[..buflen]);
    let rb = w.write_into(&mut b[..buflen]);
    assert!(ra == rb, "result depends on the buffer contents");
    match ra {
        Ok(n) => {
            assert!(n <= buflen);
            if i < n {
                assert!(a[i] == b[i], "a written byte depends on the previous contents");
            } else {
                assert!(a[i] == a0 && b[i] == b0, "a byte beyond the written size was touched");
            }
        }
        Err(_) => {
            assert!(a[i] == a0 && b[i] == b0, "a failed write modified the buffer");
        }
    }
    vcover!(!accepts || matches!(ra, Ok(n) if i < n && a0 != b0), "written byte with differing prior contents");
    vcover!(!accepts || matches!(ra, Ok(n) if i >= n), "byte beyond the packet");
    vcover!(ra.is_err(), "failed write");
}

impl<const B: usize> Visitor for TwoBuffers<B> {
    fn visit<S: Src, W: RtcpPacketWriter, I: Image>(&mut self, s: &mut S, w: &W, _img: &I) {
        two_buffers::<S, W, B>(s, w, self.accepts);
    }
}

macro_rules! shape {
    ($name:ident, $b:expr, |$s:ident, $v:ident| $call:expr) => {
        shape!($name, $b, true, |$s, $v| $call);
    };
    ($name:ident, $b:expr, $acc:expr, |$s:ident, $v:ident| $call:expr) => {
        pub fn $name<S: Src>($s: &mut S) {
            let mut vis = TwoBuffers::<$b> { accepts: $acc };
            let $v = &mut vis;
            $call
        }
    };
}

shape!(sr_1, 72, |s, v| shapes::sr::<S, _, 1>(s, v, 12));
shape!(sr_2_anypad, 340, |s, v| shapes::sr::<S, _, 2>(s, v, 252));
shape!(rr_2, 80, |s, v| shapes::rr::<S, _, 2>(s, v, 12));
shape!(bye_0, 48, |s, v| shapes::bye::<S, _, 0, 24>(s, v, 12));
shape!(bye_2, 56, |s, v| shapes::bye::<S, _, 2, 24>(s, v, 12));
shape!(bye_utf8, 44, |s, v| shapes::bye_utf8::<S, _, 1, 12>(s, v, 8));
shape!(bye_long, 160, |s, v| shapes::bye_long::<S, _, 1, 128>(s, v, 12));
shape!(bye_anypad, 280, |s, v| shapes::bye::<S, _, 1, 8>(s, v, 252));
shape!(bye_255, 288, |s, v| shapes::bye_fixed::<S, _, 1, 255, 256>(s, v, 8));
shape!(bye_256, 288, false, |s, v| shapes::bye_fixed::<S, _, 1, 256, 256>(s, v, 8));
shape!(app, 64, |s, v| shapes::app::<S, _, 32>(s, v, 12));
shape!(unknown, 56, |s, v| shapes::unknown::<S, _, 32>(s, v, 12));
shape!(sdes_1x1, 40, |s, v| shapes::sdes::<S, _, 1, 1, 5>(s, v, [1], 8));
shape!(sdes_1x2, 40, |s, v| shapes::sdes::<S, _, 1, 2, 2>(s, v, [2], 8));
shape!(sdes_2x1, 56, |s, v| shapes::sdes::<S, _, 2, 1, 3>(s, v, [1, 1], 8));
shape!(sdes_1x1_long, 112, |s, v| shapes::sdes::<S, _, 1, 1, 40>(s, v, [1], 8));
shape!(pfb_pli, 32, |s, v| shapes::fb_pli(s, v, false, 12));
shape!(tfb_pli, 32, false, |s, v| shapes::fb_pli(s, v, true, 12));
shape!(pfb_sli_2, 40, |s, v| shapes::fb_sli::<S, _, 2>(s, v, false, 12));
shape!(pfb_rpsi, 40, |s, v| shapes::fb_rpsi::<S, _, 10>(s, v, false, 12));
shape!(pfb_rpsi_long, 96, |s, v| shapes::fb_rpsi::<S, _, 64>(s, v, false, 12));
shape!(tfb_nack_1, 36, |s, v| shapes::fb_nack::<S, _, 1>(s, v, true, 12));

/// SDES chunk and item writers have their own public `write_into`.
pub fn sdes_item<S: Src>(s: &mut S) {
    let it = shapes::draw_item::<S, 8>(s);
    let w = it.builder();
    let mut a: [u8; 32] = s.bytes();
    let mut b: [u8; 32] = s.bytes();
    let buflen = s.upto(32);
    let i = s.upto(31);
    s.assume(i < buflen);
    let (a0, b0) = (a[i], b[i]);
    let ra = w.write_into(&mut a[..buflen]);
    let rb = w.write_into(&mut b[..buflen]);
    assert!(ra == rb);
    match ra {
        Ok(n) => {
            if i < n {
                assert!(a[i] == b[i]);
            } else {
                assert!(a[i] == a0 && b[i] == b0);
            }
            vcover!(i < n && a0 != b0, "written byte with differing prior contents");
        }
        Err(_) => assert!(a[i] == a0 && b[i] == b0),
    }
}

pub fn sdes_chunk<S: Src>(s: &mut S) {
    let c = ChunkCfg::<2, 4> { ssrc: s.u32(), n: 2, items: [shapes::draw_item::<S, 4>(s), shapes::draw_item::<S, 4>(s)] };
    let w = c.builder();
    let mut a: [u8; 48] = s.bytes();
    let mut b: [u8; 48] = s.bytes();
    let buflen = s.upto(48);
    let i = s.upto(47);
    s.assume(i < buflen);
    let (a0, b0) = (a[i], b[i]);
    let ra = w.write_into(&mut a[..buflen]);
    let rb = w.write_into(&mut b[..buflen]);
    assert!(ra == rb);
    match ra {
        Ok(n) => {
            if i < n {
                assert!(a[i] == b[i]);
            } else {
                assert!(a[i] == a0 && b[i] == b0);
            }
            vcover!(i < n && a0 != b0, "written byte with differing prior contents");
        }
        Err(_) => assert!(a[i] == a0 && b[i] == b0),
    }
    common::forget(w);
}

pub fn pfb_fir<S: Src>(s: &mut S) {
    let f = Fir::builder().add_ssrc(s.u32(), s.u8());
    let fbc = FbCfg::draw(s, false);
    s.assume(fbc.padding <= 8);
    let w = PayloadFeedback::builder(&f).sender_ssrc(fbc.sender).media_ssrc(fbc.media).padding(fbc.padding);
    two_buffers::<S, _, 40>(s, &w, true);
    common::forget(w);
    common::forget(f);
}

pub fn compound<S: Src>(s: &mut S) {
    let reason = Text::<6>::draw(s, 6);
    let bye = ByeCfg::<1, 6>::draw_with(s, reason);
    s.assume(bye.padding <= 8);
    let rr = RrCfg::<0>::draw(s);
    s.assume(rr.padding <= 4);
    let w = Compound::builder().add_packet(rr.builder()).add_packet(bye.builder());
    two_buffers::<S, _, 48>(s, &w, true);
    common::forget(w);
}

common::register! {
    q_sr_1 = sr_1 => 2,
    q_rr_2 = rr_2 => 3,
    q_bye_0 = bye_0 => 2,
    q_bye_2 = bye_2 => 3,
    q_bye_utf8 = bye_utf8 => 2,
    q_bye_255 = bye_255 => 2,
    q_bye_256 = bye_256 => 2,
    q_app = app => 2,
    q_unknown = unknown => 2,
    q_sdes_item = sdes_item => 2,
    q_sdes_chunk = sdes_chunk => 3,
    q_sdes_1x1 = sdes_1x1 => 2,
    q_sdes_1x2 = sdes_1x2 => 3,
    t_sdes_2x1 = sdes_2x1 => 3,
    q_pfb_pli = pfb_pli => 2,
    q_tfb_pli = tfb_pli => 2,
    q_pfb_sli_2 = pfb_sli_2 => 3,
    q_pfb_rpsi = pfb_rpsi => 2,
    q_tfb_nack_1 = tfb_nack_1 => 2,
    q_compound = compound => 4,
    t_sr_2_anypad = sr_2_anypad => 3,
    t_bye_long = bye_long => 2,
    t_bye_anypad = bye_anypad => 2,
    t_sdes_1x1_long = sdes_1x1_long => 2,
    t_pfb_rpsi_long = pfb_rpsi_long => 2,
}

common::register_hashmap! {
    q_pfb_fir = pfb_fir => 4,
}

#[cfg(not(kani))]
pub const REGISTRIES: &[&[(&str, fn(&mut common::R))]] = &[REGISTRY, REGISTRY_HASHMAP];
