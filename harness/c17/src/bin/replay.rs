#[cfg(not(kani))]
fn main() {
    common::replay_main_multi(c17::REGISTRIES)
}
#[cfg(kani)]
fn main() {}
