#[cfg(not(kani))]
fn main() {
    common::replay_main_multi(c07::REGISTRIES)
}
#[cfg(kani)]
fn main() {}
