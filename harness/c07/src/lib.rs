//! C07 — written packets have the RFC 3550/4585/5104 wire layout.
//!
//! For one symbolic index `i` the byte written at `i` must equal the byte of the reference
//! image (`common::cfg`, closed-form in `i`, written from the RFC figures).  The solver
//! covers every index.  The buffer is pre-filled with 0xA5 so that a byte the writer leaves
//! untouched differs from the image wherever the image is not 0xA5.
use common::cfg::*;
use common::shapes::{self, Image, Visitor};
use common::{vcover, Src};
use rtcp_types::prelude::*;
use rtcp_types::*;

pub struct Layout<const B: usize>;

impl<const B: usize> Visitor for Layout<B> {
    fn visit<S: Src, W: RtcpPacketWriter, I: Image>(&mut self, s: &mut S, w: &W, img: &I) {
        let i = s.upto(B - 1);
        let mut buf = [0xA5u8; B];
        let r = w.write_into(&mut buf);
        if let Ok(n) = r {
            assert!(img.size() + 4 <= B, "HARNESS: buffer array too small for this instance");
            assert!(n == img.size(), "size differs from the RFC image");
            if i < n {
                assert!(buf[i] == img.byte(i), "byte differs from the RFC image");
            }
            vcover!(i < n && i >= 4, "a body byte compared");
            vcover!(i + 1 == n, "the last byte compared");
        }
    }
}

macro_rules! shape {
    ($name:ident, $b:expr, |$s:ident, $v:ident| $call:expr) => {
        pub fn $name<S: Src>($s: &mut S) {
            let mut vis = Layout::<$b>;
            let $v = &mut vis;
            $call
        }
    };
}

shape!(sr_0, 292, |s, v| shapes::sr::<S, _, 0>(s, v, 252));
shape!(sr_1, 64, |s, v| shapes::sr::<S, _, 1>(s, v, 8));
shape!(sr_2, 92, |s, v| shapes::sr::<S, _, 2>(s, v, 12));
shape!(sr_2_anypad, 340, |s, v| shapes::sr::<S, _, 2>(s, v, 252));
shape!(sr_31, 784, |s, v| shapes::sr::<S, _, 31>(s, v, 8));
shape!(rr_0, 268, |s, v| shapes::rr::<S, _, 0>(s, v, 252));
shape!(rr_2, 72, |s, v| shapes::rr::<S, _, 2>(s, v, 12));
shape!(rr_31, 764, |s, v| shapes::rr::<S, _, 31>(s, v, 8));
shape!(bye_0, 48, |s, v| shapes::bye::<S, _, 0, 24>(s, v, 12));
shape!(bye_1, 52, |s, v| shapes::bye::<S, _, 1, 24>(s, v, 12));
shape!(bye_2, 56, |s, v| shapes::bye::<S, _, 2, 24>(s, v, 12));
shape!(bye_31, 172, |s, v| shapes::bye::<S, _, 31, 24>(s, v, 12));
shape!(bye_owned, 44, |s, v| shapes::bye_owned::<S, _, 1, 6>(s, v, 8));
shape!(bye_utf8, 44, |s, v| shapes::bye_utf8::<S, _, 1, 12>(s, v, 8));
shape!(bye_long, 160, |s, v| shapes::bye_long::<S, _, 1, 128>(s, v, 12));
shape!(bye_anypad, 280, |s, v| shapes::bye::<S, _, 1, 8>(s, v, 252));
shape!(bye_252, 284, |s, v| shapes::bye_fixed::<S, _, 1, 252, 256>(s, v, 8));
shape!(bye_253, 284, |s, v| shapes::bye_fixed::<S, _, 1, 253, 256>(s, v, 8));
shape!(bye_254, 284, |s, v| shapes::bye_fixed::<S, _, 1, 254, 256>(s, v, 8));
shape!(bye_255, 284, |s, v| shapes::bye_fixed::<S, _, 1, 255, 256>(s, v, 8));
shape!(app, 64, |s, v| shapes::app::<S, _, 32>(s, v, 12));
shape!(app_anypad, 284, |s, v| shapes::app::<S, _, 8>(s, v, 252));
shape!(unknown, 56, |s, v| shapes::unknown::<S, _, 32>(s, v, 12));
shape!(unknown_anypad, 276, |s, v| shapes::unknown::<S, _, 8>(s, v, 252));
shape!(sdes_0, 272, |s, v| shapes::sdes::<S, _, 0, 1, 3>(s, v, [], 252));
shape!(sdes_1x0, 28, |s, v| shapes::sdes::<S, _, 1, 1, 3>(s, v, [0], 12));
shape!(sdes_1x1, 40, |s, v| shapes::sdes::<S, _, 1, 1, 5>(s, v, [1], 8));
shape!(sdes_1x2, 48, |s, v| shapes::sdes::<S, _, 1, 2, 3>(s, v, [2], 8));
shape!(sdes_2x1, 56, |s, v| shapes::sdes::<S, _, 2, 1, 3>(s, v, [1, 1], 8));
shape!(sdes_2x21, 72, |s, v| shapes::sdes::<S, _, 2, 2, 3>(s, v, [2, 1], 8));
shape!(sdes_1x1_long, 112, |s, v| shapes::sdes::<S, _, 1, 1, 40>(s, v, [1], 8));
shape!(sdes_val_255, 284, |s, v| shapes::sdes_fixed::<S, _, 255, 0, 256>(s, v, false, 8));
shape!(sdes_val_254, 284, |s, v| shapes::sdes_fixed::<S, _, 254, 0, 256>(s, v, false, 8));
shape!(sdes_priv_254, 284, |s, v| shapes::sdes_fixed::<S, _, 200, 54, 256>(s, v, true, 8));
shape!(sdes_priv_253, 284, |s, v| shapes::sdes_fixed::<S, _, 0, 253, 256>(s, v, true, 8));
shape!(pfb_pli, 280, |s, v| shapes::fb_pli(s, v, false, 252));
shape!(pfb_sli_1, 36, |s, v| shapes::fb_sli::<S, _, 1>(s, v, false, 12));
shape!(pfb_sli_3, 44, |s, v| shapes::fb_sli::<S, _, 3>(s, v, false, 12));
shape!(pfb_rpsi, 40, |s, v| shapes::fb_rpsi::<S, _, 10>(s, v, false, 12));
shape!(pfb_rpsi_long, 96, |s, v| shapes::fb_rpsi::<S, _, 64>(s, v, false, 12));
shape!(tfb_nack_1, 36, |s, v| shapes::fb_nack::<S, _, 1>(s, v, true, 12));
shape!(tfb_nack_2, 40, |s, v| shapes::fb_nack::<S, _, 2>(s, v, true, 12));

/// NACK word encoder as a unit (hook `verif::nack::encode_entries`): `N` symbolic strictly
/// ascending sequence numbers (what the builder's `BTreeSet` iterates) against the greedy
/// minimum cover: same number of words, strictly increasing PIDs, same (PID, BLP) words, and
/// the reference decoding of the words is exactly the input set.
pub fn nack_encoder<S: Src, const N: usize>(s: &mut S) {
    let n = s.upto(N);
    let mut seqs = [0u16; N];
    let mut i = 0;
    while i < N {
        seqs[i] = s.u16();
        if i > 0 && i < n {
            s.assume(seqs[i] > seqs[i - 1]);
        }
        i += 1;
    }
    let k = s.upto(N);
    let mut expect = [(0u16, 0u16); N];
    let nw = nack_words(&seqs, n, &mut expect);
    let mut it = verif::nack::encode_entries(seqs.into_iter().take(n));
    let mut count = 0;
    let mut word_k = None;
    let mut j = 0;
    while j <= N {
        if let Some(w) = it.next() {
            if count == k {
                word_k = Some(w);
            }
            count += 1;
        }
        j += 1;
    }
    assert!(count == nw, "not the minimum number of (PID, BLP) words");
    if k < nw {
        let w = word_k.unwrap();
        let (pid, blp) = expect[k];
        assert!(w == [(pid >> 8) as u8, pid as u8, (blp >> 8) as u8, blp as u8]);
        assert!(k == 0 || pid > expect[k - 1].0);
    }
    // the reference words decode to exactly the set: every input is covered by its word
    let m = s.upto(N);
    if m < n {
        let mut covered = false;
        let mut w = 0;
        while w < N {
            if w < nw {
                let (pid, blp) = expect[w];
                let d = seqs[m].wrapping_sub(pid);
                covered = covered || d == 0 || (d <= 16 && blp & (1 << (d - 1)) != 0);
            }
            w += 1;
        }
        assert!(covered);
    }
    vcover!(nw >= 2 && nw < n, "several words, some with a bitmask");
    vcover!(n == N && nw == 1, "all values in one word");
}

/// FIR entries may appear in any order: every written 8-byte entry is (SSRC, seq, 0, 0, 0)
/// of a configured pair, every configured pair appears, and the header/trailer is the image.
pub fn pfb_fir<S: Src, const SYMBOLIC: bool>(s: &mut S) {
    let fbc = FbCfg::draw(s, false);
    s.assume(fbc.padding <= 8);
    let e0 = (s.u32(), s.u8());
    let entries: [(u32, u8); 3] = if SYMBOLIC { [e0, e0, e0] } else { [(1, 9), (0xffff_fffe, 2), (77, 3)] };
    let n = if SYMBOLIC { 1 } else { 3 };
    let f = if SYMBOLIC {
        Fir::builder().add_ssrc(e0.0, e0.1)
    } else {
        Fir::builder().add_ssrc(1, 1).add_ssrc(0xffff_fffe, 2).add_ssrc(1, 9).add_ssrc(77, 3)
    };
    let b = PayloadFeedback::builder(&f).sender_ssrc(fbc.sender).media_ssrc(fbc.media).padding(fbc.padding);
    let mut buf = [0xA5u8; 56];
    let r = b.write_into(&mut buf);
    let i = s.upto(55);
    let k = s.upto(2);
    if let Ok(size) = r {
        assert!(size == 12 + 8 * n + fbc.padding as usize);
        if i < size && (i < 12 || i >= 12 + 8 * n) {
            assert!(buf[i] == fbc.byte(i, FMT_FIR, 8 * n, |_| 0));
        }
        if k < n {
            // written entry k is one of the configured pairs ...
            let o = 12 + 8 * k;
            let ssrc = common::refs::be32(&buf, o);
            let mut found = false;
            let mut present = false;
            let mut j = 0;
            while j < 3 {
                if j < n {
                    found = found || (entries[j].0 == ssrc && entries[j].1 == buf[o + 4]);
                    // ... and configured pair k appears somewhere
                    let oj = 12 + 8 * j;
                    present = present || (common::refs::be32(&buf, oj) == entries[k].0 && buf[oj + 4] == entries[k].1);
                }
                j += 1;
            }
            assert!(found && present);
            assert!(buf[o + 5] == 0 && buf[o + 6] == 0 && buf[o + 7] == 0);
        }
        vcover!(true, "FIR written");
    }
    common::forget(b);
    common::forget(f);
}

/// A compound is laid out as its members' images back to back.
pub fn compound<S: Src>(s: &mut S) {
    let reason = Text::<8>::draw(s, 8);
    let bye = ByeCfg::<1, 8>::draw_with(s, reason);
    s.assume(bye.padding <= 8);
    let rr = RrCfg::<1>::draw(s);
    let data = Blob::<8>::draw(s, 8);
    let app = AppCfg::draw_with(s, data);
    let b = Compound::builder().add_packet(rr.builder()).add_packet(app.builder()).add_packet(bye.builder());
    let mut buf = [0xA5u8; 96];
    let r = b.write_into(&mut buf);
    let i = s.upto(95);
    if let Ok(n) = r {
        let (a, c) = (rr.size(), app.size());
        assert!(n == a + c + bye.size());
        if i < n {
            let want = if i < a { rr.byte(i) } else if i < a + c { app.byte(i - a) } else { bye.byte(i - a - c) };
            assert!(buf[i] == want);
        }
        vcover!(i >= a + c && i < n, "a byte of the last member compared");
    }
    common::forget(b);
}

common::register! {
    q_sr_0 = sr_0 => 2,
    q_sr_1 = sr_1 => 2,
    q_sr_2 = sr_2 => 3,
    q_rr_0 = rr_0 => 2,
    q_rr_2 = rr_2 => 3,
    q_bye_0 = bye_0 => 2,
    q_bye_1 = bye_1 => 2,
    q_bye_2 = bye_2 => 3,
    q_bye_utf8 = bye_utf8 => 2,
    q_bye_owned = bye_owned => 2,
    q_bye_255 = bye_255 => 2,
    q_bye_254 = bye_254 => 2,
    q_app = app => 2,
    q_unknown = unknown => 2,
    q_sdes_0 = sdes_0 => 2,
    q_sdes_1x0 = sdes_1x0 => 2,
    q_sdes_1x1 = sdes_1x1 => 2,
    q_sdes_1x2 = sdes_1x2 => 3,
    t_sdes_2x1 = sdes_2x1 => 3,
    t_sdes_val_255 = sdes_val_255 => 2,
    t_sdes_priv_254 = sdes_priv_254 => 2,
    q_pfb_pli = pfb_pli => 2,
    q_pfb_sli_1 = pfb_sli_1 => 2,
    q_pfb_sli_3 = pfb_sli_3 => 4,
    q_pfb_rpsi = pfb_rpsi => 2,
    q_tfb_nack_1 = tfb_nack_1 => 2,
    q_nack_encoder_5 = nack_encoder::<_, 5> => 7,
    q_compound = compound => 4,
    t_sr_2_anypad = sr_2_anypad => 3,
    t_sr_31 = sr_31 => 32,
    t_rr_31 = rr_31 => 32,
    t_bye_31 = bye_31 => 32,
    t_bye_long = bye_long => 2,
    t_bye_anypad = bye_anypad => 2,
    t_bye_252 = bye_252 => 2,
    t_bye_253 = bye_253 => 2,
    t_app_anypad = app_anypad => 2,
    t_unknown_anypad = unknown_anypad => 2,
    t_sdes_2x21 = sdes_2x21 => 3,
    t_sdes_1x1_long = sdes_1x1_long => 2,
    t_sdes_val_254 = sdes_val_254 => 2,
    t_sdes_priv_253 = sdes_priv_253 => 2,
    t_pfb_rpsi_long = pfb_rpsi_long => 2,
    t_tfb_nack_2 = tfb_nack_2 => 3,
    t_nack_encoder_7 = nack_encoder::<_, 7> => 9,
}

common::register_hashmap! {
    q_pfb_fir_1 = pfb_fir::<_, true> => 4,
    t_pfb_fir_fixed = pfb_fir::<_, false> => 6,
}

#[cfg(not(kani))]
pub const REGISTRIES: &[&[(&str, fn(&mut common::R))]] = &[REGISTRY, REGISTRY_HASHMAP];
