#[cfg(not(kani))]
fn main() {
    common::replay_main_multi(c13::REGISTRIES)
}
#[cfg(kani)]
fn main() {}
