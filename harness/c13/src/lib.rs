//! C13 — trailing padding is transparent to packet contents.
//!
//! Both images (without padding, and the same packet with `P` bytes of RFC 3550 padding) are
//! produced by the reference encoder (`common::cfg`), never by the crate's builders.  Both
//! must be accepted by the same parser, `padding()` must report `P`, and every content
//! accessor must return the same thing (one symbolic index per list).
use common::cfg::*;
use common::refs::*;
use common::shapes::{draw_sdes, Image};
use common::{forget, vcover, Src};
use rtcp_types::prelude::*;
use rtcp_types::*;

fn render<I: Image, const B: usize>(img: &I, buf: &mut [u8; B]) -> usize {
    let n = img.size();
    assert!(n <= B, "HARNESS: buffer array too small");
    let mut i = 0;
    while i < B {
        if i < n {
            buf[i] = img.byte(i);
        }
        i += 1;
    }
    n
}

/// A legal, non-zero padding amount up to `max`.
fn draw_padding<S: Src>(s: &mut S, max: u8) -> u8 {
    let p = s.u8();
    s.assume(p > 0 && p % 4 == 0 && p <= max);
    p
}

pub fn sr<S: Src, const NB: usize, const B: usize>(s: &mut S, maxpad: u8) {
    let mut c = SrCfg::<NB>::draw(s);
    let pad = draw_padding(s, maxpad);
    let k = s.upto(NB);
    s.assume(c.valid());
    c.padding = 0;
    let (mut a, mut b) = ([0u8; B], [0u8; B]);
    let na = render(&c, &mut a);
    c.padding = pad;
    let nb = render(&c, &mut b);
    let p = SenderReport::parse(&a[..na]).expect("unpadded reference SR rejected");
    let q = SenderReport::parse(&b[..nb]).expect("padded SR rejected");
    assert!(p.padding().is_none() && q.padding() == Some(pad));
    assert!(p.ssrc() == q.ssrc() && p.ntp_timestamp() == q.ntp_timestamp());
    assert!(p.rtp_timestamp() == q.rtp_timestamp() && p.packet_count() == q.packet_count());
    assert!(p.octet_count() == q.octet_count() && p.n_reports() == q.n_reports());
    assert!(p.report_blocks().count() == q.report_blocks().count());
    let mut compared = false;
    let blocks = (p.report_blocks().nth(k), q.report_blocks().nth(k));
    match blocks {
        (Some(x), Some(y)) => {
            assert!(x.ssrc() == y.ssrc() && x.fraction_lost() == y.fraction_lost());
            assert!(x.cumulative_lost() == y.cumulative_lost() && x.interarrival_jitter() == y.interarrival_jitter());
            assert!(x.extended_sequence_number() == y.extended_sequence_number());
            assert!(x.last_sender_report_timestamp() == y.last_sender_report_timestamp());
            assert!(x.delay_since_last_sender_report_timestamp() == y.delay_since_last_sender_report_timestamp());
            compared = true;
        }
        (None, None) => {}
        _ => panic!("padding changes the report blocks"),
    };
    vcover!(NB == 0 || compared, "a block compared");
}

pub fn rr<S: Src, const NB: usize, const B: usize>(s: &mut S, maxpad: u8) {
    let mut c = RrCfg::<NB>::draw(s);
    let pad = draw_padding(s, maxpad);
    let k = s.upto(NB);
    s.assume(c.valid());
    c.padding = 0;
    let (mut a, mut b) = ([0u8; B], [0u8; B]);
    let na = render(&c, &mut a);
    c.padding = pad;
    let nb = render(&c, &mut b);
    let p = ReceiverReport::parse(&a[..na]).expect("unpadded reference RR rejected");
    let q = ReceiverReport::parse(&b[..nb]).expect("padded RR rejected");
    assert!(p.padding().is_none() && q.padding() == Some(pad));
    assert!(p.ssrc() == q.ssrc() && p.n_reports() == q.n_reports());
    let mut compared = false;
    let blocks = (p.report_blocks().nth(k), q.report_blocks().nth(k));
    match blocks {
        (Some(x), Some(y)) => {
            assert!(x.ssrc() == y.ssrc() && x.cumulative_lost() == y.cumulative_lost());
            assert!(x.delay_since_last_sender_report_timestamp() == y.delay_since_last_sender_report_timestamp());
            compared = true;
        }
        (None, None) => {}
        _ => panic!("padding changes the report blocks"),
    };
    vcover!(NB == 0 || compared, "a block compared");
}

pub fn bye<S: Src, const NS: usize, const L: usize, const B: usize>(s: &mut S, maxpad: u8) {
    let reason = Text::<L>::draw(s, L);
    let mut c = ByeCfg::<NS, L>::draw_with(s, reason);
    let pad = draw_padding(s, maxpad);
    let k = s.upto(NS);
    let j = s.upto(L);
    c.padding = 0;
    let (mut a, mut b) = ([0u8; B], [0u8; B]);
    let na = render(&c, &mut a);
    c.padding = pad;
    let nb = render(&c, &mut b);
    let p = Bye::parse(&a[..na]).expect("unpadded reference BYE rejected");
    let q = Bye::parse(&b[..nb]).expect("padded BYE rejected");
    assert!(p.padding().is_none() && q.padding() == Some(pad));
    assert!(p.ssrcs().count() == q.ssrcs().count());
    assert!(p.ssrcs().nth(k) == q.ssrcs().nth(k));
    match (p.reason(), q.reason()) {
        (Some(x), Some(y)) => {
            assert!(x.len() == y.len());
            if j < x.len() {
                assert!(x[j] == y[j]);
            }
            vcover!(true, "reason compared");
        }
        (None, None) => {
            vcover!(true, "no reason in either");
        }
        _ => panic!("padding changes the reason"),
    };
}

pub fn app<S: Src, const L: usize, const B: usize>(s: &mut S, maxpad: u8) {
    let data = Blob::<L>::draw(s, L);
    let mut c = AppCfg::draw_with(s, data);
    let pad = draw_padding(s, maxpad);
    let j = s.upto(L);
    s.assume(c.valid());
    c.padding = 0;
    let (mut a, mut b) = ([0u8; B], [0u8; B]);
    let na = render(&c, &mut a);
    c.padding = pad;
    let nb = render(&c, &mut b);
    let p = App::parse(&a[..na]).expect("unpadded reference APP rejected");
    let q = App::parse(&b[..nb]).expect("padded APP rejected");
    assert!(p.padding().is_none() && q.padding() == Some(pad));
    assert!(p.ssrc() == q.ssrc() && p.subtype() == q.subtype() && p.name() == q.name());
    let (x, y) = (p.data(), q.data());
    assert!(x.len() == y.len(), "padding changes the payload length");
    if j < x.len() {
        assert!(x[j] == y[j]);
    }
    vcover!(!x.is_empty(), "payload compared");
}

pub fn sdes<S: Src, const NC: usize, const NI: usize, const L: usize, const B: usize>(s: &mut S, counts: [usize; NC], maxpad: u8) {
    let mut c = draw_sdes::<S, NC, NI, L>(s, counts);
    let pad = draw_padding(s, maxpad);
    let kc = s.upto(NC);
    let ki = s.upto(NI);
    let j = s.upto(L);
    c.padding = 0;
    let (mut a, mut b) = ([0u8; B], [0u8; B]);
    let na = c.render(&mut a);
    c.padding = pad;
    assert!(c.size() <= B, "HARNESS: buffer array too small");
    let nb = c.render(&mut b);
    let mut compared = false;
    let mut any_items = false;
    let mut z = 0;
    while z < NC {
        any_items = any_items || c.chunks[z].n > 0;
        z += 1;
    }
    let p = Sdes::parse(&a[..na]).expect("unpadded reference SDES rejected");
    let q = Sdes::parse(&b[..nb]).expect("padded SDES rejected");
    assert!(p.padding().is_none() && q.padding() == Some(pad));
    assert!(p.chunks().count() == q.chunks().count(), "padding changes the chunk count");
    match (p.chunks().nth(kc), q.chunks().nth(kc)) {
        (Some(x), Some(y)) => {
            assert!(x.ssrc() == y.ssrc() && x.items().count() == y.items().count());
            match (x.items().nth(ki), y.items().nth(ki)) {
                (Some(u), Some(v)) => {
                    assert!(u.type_() == v.type_() && u.value().len() == v.value().len());
                    if j < u.value().len() {
                        assert!(u.value()[j] == v.value()[j]);
                    }
                    compared = true;
                }
                (None, None) => {}
                _ => panic!("padding changes the items"),
            }
        }
        (None, None) => {}
        _ => panic!("padding changes the chunks"),
    }
    vcover!(!any_items || compared, "an item compared");
    forget((p, q));
}

/// Feedback packets: the FCI entries decoded through `parse_fci` are the same.
pub fn fb<S: Src, const KIND: u8, const B: usize>(s: &mut S, maxpad: u8) {
    let transport = KIND == 0;
    let mut c = FbCfg::draw(s, transport);
    let pad = draw_padding(s, maxpad);
    let fmt = match KIND {
        0 => FMT_NACK,
        1 => FMT_PLI,
        2 => FMT_SLI,
        3 => FMT_RPSI,
        _ => FMT_FIR,
    };
    // FCI body: two 32-bit words of arbitrary bytes (none for PLI; RPSI with a legal PB)
    let body: [u8; 8] = s.bytes();
    let fci_len = if KIND == 1 { 0 } else if KIND == 0 { 4 } else { 8 };
    if KIND == 3 {
        s.assume(body[0] <= 48);
    }
    let k = s.upto(if KIND == 0 { 3 } else { 40 });
    let mut compared = false;
    let (mut a, mut b) = ([0u8; B], [0u8; B]);
    c.padding = 0;
    let na = c.size(fci_len);
    let mut i = 0;
    while i < B {
        if i < na {
            a[i] = c.byte(i, fmt, fci_len, |o| body[o]);
        }
        i += 1;
    }
    c.padding = pad;
    let nb = c.size(fci_len);
    assert!(nb <= B, "HARNESS: buffer array too small");
    let mut i = 0;
    while i < B {
        if i < nb {
            b[i] = c.byte(i, fmt, fci_len, |o| body[o]);
        }
        i += 1;
    }
    if transport {
        let p = TransportFeedback::parse(&a[..na]).expect("unpadded reference RTPFB rejected");
        let q = TransportFeedback::parse(&b[..nb]).expect("padded RTPFB rejected");
        assert!(p.padding().is_none() && q.padding() == Some(pad));
        assert!(p.sender_ssrc() == q.sender_ssrc() && p.media_ssrc() == q.media_ssrc());
        let x = p.parse_fci::<Nack>().expect("NACK FCI rejected");
        let y = q.parse_fci::<Nack>().expect("padded NACK FCI rejected");
        // the first three values of both lists
        let (mut xi, mut yi) = (x.entries(), y.entries());
        let (x0, y0) = (xi.next(), yi.next());
        let (x1, y1) = (xi.next(), yi.next());
        let (x2, y2) = (xi.next(), yi.next());
        assert!(x0 == y0 && x1 == y1 && x2 == y2, "padding changes the NACK entries");
        compared = x0.is_some() && k == k;
    } else {
        let p = PayloadFeedback::parse(&a[..na]).expect("unpadded reference PSFB rejected");
        let q = PayloadFeedback::parse(&b[..nb]).expect("padded PSFB rejected");
        assert!(p.padding().is_none() && q.padding() == Some(pad));
        assert!(p.sender_ssrc() == q.sender_ssrc() && p.media_ssrc() == q.media_ssrc());
        match KIND {
            1 => {
                assert!(p.parse_fci::<Pli>().is_ok(), "PLI rejected");
                assert!(q.parse_fci::<Pli>().is_ok(), "padded PLI rejected");
                compared = true;
            }
            2 => {
                let x = p.parse_fci::<Sli>().expect("SLI FCI rejected");
                let y = q.parse_fci::<Sli>().expect("padded SLI FCI rejected");
                let (u, v) = (x.lost_macroblocks().nth(k), y.lost_macroblocks().nth(k));
                assert!(u.map(|e| verif::sli::fields(&e)) == v.map(|e| verif::sli::fields(&e)), "padding changes the SLI entries");
                compared = u.is_some();
            }
            3 => {
                let x = p.parse_fci::<Rpsi>().expect("RPSI FCI rejected");
                let y = q.parse_fci::<Rpsi>().expect("padded RPSI FCI rejected");
                assert!(x.payload_type() == y.payload_type());
                let ((xb, xi), (yb, yi)) = (x.bit_string(), y.bit_string());
                assert!(xb.len() == yb.len() && xi == yi, "padding changes the RPSI bit string");
                if k < xb.len() {
                    assert!(xb[k] == yb[k]);
                }
                compared = !xb.is_empty();
            }
            _ => {
                let x = p.parse_fci::<Fir>().expect("FIR FCI rejected");
                let y = q.parse_fci::<Fir>().expect("padded FIR FCI rejected");
                let (u, v) = (x.entries().nth(k), y.entries().nth(k));
                assert!(u.as_ref().map(|e| (e.ssrc(), e.sequence())) == v.as_ref().map(|e| (e.ssrc(), e.sequence())), "padding changes the FIR entries");
                compared = u.is_some();
            }
        }
    }
    vcover!(compared, "FCI content compared");
    let _ = be32(&a, 0);
}

pub fn w_q_sr<S: Src>(s: &mut S) { sr::<S, 1, 64>(s, 12) }
pub fn w_q_rr<S: Src>(s: &mut S) { rr::<S, 2, 68>(s, 12) }
pub fn w_q_rr_0_pad28<S: Src>(s: &mut S) { rr::<S, 0, 40>(s, 28) }
pub fn w_q_sr_0_pad28<S: Src>(s: &mut S) { sr::<S, 0, 60>(s, 28) }
pub fn w_q_bye<S: Src>(s: &mut S) { bye::<S, 2, 12, 40>(s, 12) }
pub fn w_q_bye_0<S: Src>(s: &mut S) { bye::<S, 0, 12, 32>(s, 12) }
pub fn w_q_app<S: Src>(s: &mut S) { app::<S, 12, 36>(s, 12) }
pub fn w_q_sdes_1x1<S: Src>(s: &mut S) { sdes::<S, 1, 1, 2, 24>(s, [1], 4) }
pub fn w_q_sdes_2x1<S: Src>(s: &mut S) { sdes::<S, 2, 1, 2, 40>(s, [1, 1], 8) }
pub fn w_q_sdes_1x0<S: Src>(s: &mut S) { sdes::<S, 1, 1, 1, 24>(s, [0], 8) }
pub fn w_q_sdes_0<S: Src>(s: &mut S) { sdes::<S, 0, 1, 1, 16>(s, [], 12) }
pub fn w_q_nack<S: Src>(s: &mut S) { fb::<S, 0, 32>(s, 12) }
pub fn w_q_pli<S: Src>(s: &mut S) { fb::<S, 1, 24>(s, 12) }
pub fn w_q_sli<S: Src>(s: &mut S) { fb::<S, 2, 32>(s, 12) }
pub fn w_q_rpsi<S: Src>(s: &mut S) { fb::<S, 3, 32>(s, 12) }
pub fn w_q_fir<S: Src>(s: &mut S) { fb::<S, 4, 32>(s, 12) }
pub fn w_t_sr_anypad<S: Src>(s: &mut S) { sr::<S, 2, 332>(s, 252) }
pub fn w_t_rr_anypad<S: Src>(s: &mut S) { rr::<S, 1, 288>(s, 252) }
pub fn w_t_bye_anypad<S: Src>(s: &mut S) { bye::<S, 1, 8, 280>(s, 252) }
pub fn w_t_bye_long<S: Src>(s: &mut S) { bye::<S, 1, 128, 160>(s, 12) }
pub fn w_t_app_anypad<S: Src>(s: &mut S) { app::<S, 8, 276>(s, 252) }
pub fn w_t_sdes_1x2<S: Src>(s: &mut S) { sdes::<S, 1, 2, 3, 44>(s, [2], 12) }
pub fn w_t_sdes_anypad<S: Src>(s: &mut S) { sdes::<S, 1, 1, 2, 272>(s, [1], 252) }
pub fn w_t_nack_anypad<S: Src>(s: &mut S) { fb::<S, 0, 276>(s, 252) }
pub fn w_t_fir_anypad<S: Src>(s: &mut S) { fb::<S, 4, 276>(s, 252) }

common::register! {
    q_sr = w_q_sr => 2,
    q_rr = w_q_rr => 2,
    q_rr_0_pad28 = w_q_rr_0_pad28 => 2,
    q_sr_0_pad28 = w_q_sr_0_pad28 => 2,
    q_bye = w_q_bye => 2,
    q_bye_0 = w_q_bye_0 => 2,
    q_app = w_q_app => 2,
    q_sdes_0 = w_q_sdes_0 => 2,
    q_sdes_1x1 = w_q_sdes_1x1 => 2,
    q_sdes_1x0 = w_q_sdes_1x0 => 2,
    t_sdes_2x1 = w_q_sdes_2x1 => 2,
    q_nack = w_q_nack => 2,
    q_pli = w_q_pli => 2,
    q_sli = w_q_sli => 2,
    q_rpsi = w_q_rpsi => 2,
    q_fir = w_q_fir => 2,
    t_sr_anypad = w_t_sr_anypad => 2,
    t_rr_anypad = w_t_rr_anypad => 2,
    t_bye_anypad = w_t_bye_anypad => 2,
    t_bye_long = w_t_bye_long => 2,
    t_app_anypad = w_t_app_anypad => 2,
    t_sdes_1x2 = w_t_sdes_1x2 => 2,
    t_sdes_anypad = w_t_sdes_anypad => 2,
    t_nack_anypad = w_t_nack_anypad => 2,
    t_fir_anypad = w_t_fir_anypad => 2,
}

#[cfg(not(kani))]
pub const REGISTRIES: &[&[(&str, fn(&mut common::R))]] = &[REGISTRY];
