#[cfg(not(kani))]
fn main() {
    common::replay_main_multi(c16::REGISTRIES)
}
#[cfg(kani)]
fn main() {}
