//! C16 — builders accept exactly the representable configurations.
//!
//! `calculate_size()` must fail iff a rule of the statement is violated, and the error must
//! name one of the violated rules with the offending value.  Lengths are symbolic across
//! every limit (not sampled at the limit).
use common::cfg::*;
use common::{kf, vcover, Src};
use rtcp_types::prelude::*;
use rtcp_types::RtcpWriteError as E;
use rtcp_types::*;

/// 65536 32-bit words: the largest packet the 16-bit length field can describe.
const MAX_PACKET: usize = 65536 * 4;

fn bad_padding(e: &E, p: u8) -> bool {
    p % 4 != 0 && *e == E::InvalidPadding { padding: p }
}

/// `r` must be Ok iff `valid`; if Err, `allowed(e)` must hold.
fn decide(r: Result<usize, E>, valid: bool, expect_size: usize, allowed: impl Fn(&E) -> bool) {
    match r {
        Ok(_) => {
            // the value of the size is C06/C07's subject, not C16's
            let _ = expect_size;
            assert!(valid, "accepted an unrepresentable configuration");
        }
        Err(e) => {
            assert!(!valid, "rejected a representable configuration");
            assert!(allowed(&e), "error does not name a violated rule");
        }
    }
}

fn blocks_err<const NB: usize>(e: &E, blocks: &[RbCfg; NB]) -> bool {
    let mut ok = false;
    let mut i = 0;
    while i < NB {
        let c = blocks[i].cumulative;
        ok = ok || (c > 0xff_ffff && *e == E::CumulativeLostTooLarge { value: c, max: 0xff_ffff });
        i += 1;
    }
    ok
}

pub fn sr<S: Src, const NB: usize>(s: &mut S) {
    let c = SrCfg::<NB>::draw(s);
    let b = c.builder();
    let r = b.calculate_size();
    common::forget(b);
    vcover!(NB > 31 || r.is_ok(), "accepted");
    vcover!(r.is_err(), "rejected");
    decide(r, c.valid(), c.size(), |e| {
        bad_padding(e, c.padding)
            || (NB > 31 && *e == E::TooManyReportBlocks { count: NB, max: 31 })
            || blocks_err(e, &c.blocks)
    });
}

pub fn rr<S: Src, const NB: usize>(s: &mut S) {
    let c = RrCfg::<NB>::draw(s);
    let b = c.builder();
    let r = b.calculate_size();
    common::forget(b);
    vcover!(NB > 31 || r.is_ok(), "accepted");
    vcover!(r.is_err(), "rejected");
    decide(r, c.valid(), c.size(), |e| {
        bad_padding(e, c.padding)
            || (NB > 31 && *e == E::TooManyReportBlocks { count: NB, max: 31 })
            || blocks_err(e, &c.blocks)
    });
}

pub fn bye<S: Src, const NS: usize>(s: &mut S) {
    let reason = Text::<300>::draw_len_utf8(s, 300);
    let c = ByeCfg::<NS, 300>::draw_with(s, reason);
    let b = c.builder();
    let r = b.calculate_size();
    common::forget(b);
    vcover!(NS > 31 || (r.is_ok() && c.reason.len == 255), "255-byte reason accepted");
    vcover!(r.is_err() && c.reason.len == 256, "256-byte reason rejected");
    decide(r, c.valid(), c.size(), |e| {
        bad_padding(e, c.padding)
            || (NS > 31 && *e == E::TooManySources { count: NS, max: 31 })
            || (c.reason.len > 255 && *e == E::ReasonLenTooLarge { len: c.reason.len, max: 255 })
    });
}

/// Text of concrete length `LEN` whose first `K` characters are two-byte characters (U+00E9):
/// byte length and character count differ by `K`, everything is a constant.
fn text_const<const LEN: usize, const K: usize>() -> Text<300> {
    let mut bytes = [b'a'; 300];
    let mut i = 0;
    while i < 2 * K {
        bytes[i] = if i % 2 == 0 { 0xc3 } else { 0xa9 };
        i += 1;
    }
    Text { len: LEN, bytes }
}

/// The 255-byte limit of the reason is a limit on bytes, whatever the character count:
/// concrete multi-byte reason of `LEN` bytes and `LEN - K` characters.
pub fn bye_utf8_limit<S: Src, const LEN: usize, const K: usize>(s: &mut S) {
    let c = ByeCfg::<1, 300>::draw_with(s, text_const::<LEN, K>());
    let b = c.builder();
    let r = b.calculate_size();
    common::forget(b);
    vcover!(r.is_ok() == (LEN <= 255), "multi-byte reason at the limit");
    decide(r, c.valid(), c.size(), |e| {
        bad_padding(e, c.padding) || (LEN > 255 && *e == E::ReasonLenTooLarge { len: LEN, max: 255 })
    });
}

/// Same for an SDES item value (255 bytes) and a PRIV item (prefix + value <= 254 bytes).
pub fn sdes_item_utf8_limit<S: Src, const LEN: usize, const K: usize, const PREFIX: usize>(s: &mut S) {
    let type_ = s.u8();
    let it = ItemCfg { type_, value: text_const::<LEN, K>(), prefix: Blob { len: PREFIX, bytes: [0x5a; 300] } };
    let mut buf = [0u8; 600];
    let r = it.builder().write_into(&mut buf);
    vcover!(r.is_ok() == it.valid(), "multi-byte value at the limit");
    decide(r, it.valid(), it.size(), |e| item_err(e, &it));
}

static BIG: [u8; 300_000] = [0x5a; 300_000];

pub fn app<S: Src>(s: &mut S) {
    let len = s.upto(300_000);
    let c = AppCfg::<0>::draw_with(s, Blob { len: 0, bytes: [] });
    let b = App::builder(c.ssrc, c.name_str()).padding(c.padding).subtype(c.subtype).data(&BIG[..len]);
    let r = b.calculate_size();
    let size = 12 + len + c.padding as usize;
    let too_big = size > MAX_PACKET;
    if kf::C16_APP_TOTAL_SIZE {
        // listed finding: no builder rejects a packet larger than the length field can
        // describe; it is decided in its own twin harness
        s.assume(!too_big);
    }
    let valid = c.subtype <= 31 && c.name_len <= 4 && c.name_ascii() && len % 4 == 0
        && padding_ok(c.padding) && !too_big;
    vcover!(r.is_ok(), "accepted");
    vcover!(r.is_err() && c.name_len == 5, "5-byte name rejected");
    vcover!(r.is_ok() && c.name_len == 4, "4-byte name accepted");
    decide(r, valid, size, |e| {
        bad_padding(e, c.padding)
            || (c.subtype > 31 && *e == E::AppSubtypeOutOfRange { subtype: c.subtype, max: 31 })
            || ((c.name_len > 4 || !c.name_ascii()) && *e == E::InvalidName)
            || (len % 4 != 0 && *e == E::DataLen32bitMultiple(len))
            || too_big
    });
}

/// Twin of the listed finding: restricted to packets above 65536 words.
pub fn kf_app_total_size<S: Src>(s: &mut S) {
    let len = s.upto(300_000);
    s.assume(len % 4 == 0 && 12 + len > MAX_PACKET);
    let b = App::builder(1, "name").data(&BIG[..len]);
    let r = b.calculate_size();
    assert!(r.is_err(), "accepted a packet larger than 65536 words");
}

pub fn unknown<S: Src>(s: &mut S) {
    let len = s.upto(300_000);
    let c = UnknownCfg::<0>::draw_with(s, Blob { len: 0, bytes: [] });
    let b = Unknown::builder(c.type_, &BIG[..len]).padding(c.padding).count(c.count);
    let r = b.calculate_size();
    let size = 4 + len + c.padding as usize;
    let too_big = size > MAX_PACKET;
    if kf::C16_UNKNOWN_TOTAL_SIZE {
        s.assume(!too_big);
    }
    let valid = c.count <= 31 && len % 4 == 0 && padding_ok(c.padding) && !too_big;
    vcover!(r.is_ok(), "accepted");
    vcover!(r.is_err() && c.count == 32, "count 32 rejected");
    decide(r, valid, size, |e| {
        bad_padding(e, c.padding)
            || (c.count > 31 && *e == E::CountOutOfRange { count: c.count, max: 31 })
            || (len % 4 != 0 && *e == E::DataLen32bitMultiple(len))
            || too_big
    });
}

pub fn kf_unknown_total_size<S: Src>(s: &mut S) {
    let len = s.upto(300_000);
    s.assume(len % 4 == 0 && 4 + len > MAX_PACKET);
    let b = Unknown::builder(77, &BIG[..len]);
    let r = b.calculate_size();
    assert!(r.is_err(), "accepted a packet larger than 65536 words");
}

// ------------------------------------------------------------------ SDES

fn draw_item<S: Src>(s: &mut S) -> ItemCfg<300> {
    let type_ = s.u8();
    let value = Text::<300>::draw_len(s, 300);
    let prefix = Blob::<300>::draw_len(s, 300);
    ItemCfg { type_, value, prefix }
}

fn item_err(e: &E, it: &ItemCfg<300>) -> bool {
    let (p, v) = (it.prefix.len, it.value.len);
    if it.is_priv() {
        // "a PRIV prefix plus value above 254 bytes": the error names the prefix when the
        // prefix alone does not fit, else the value with the room the prefix leaves
        (p > 254 && *e == E::SdesPrivPrefixTooLarge { len: p, max: 254 })
            || (p <= 254 && p + v > 254 && *e == E::SdesValueTooLarge { len: v, max: (254 - p) as u8 })
    } else {
        v > 255 && *e == E::SdesValueTooLarge { len: v, max: 255 }
    }
}

pub fn sdes<S: Src, const NC: usize, const NI: usize>(s: &mut S) {
    let padding = s.u8();
    let zi = ItemCfg { type_: 1, value: Text { len: 0, bytes: [0; 300] }, prefix: Blob { len: 0, bytes: [0; 300] } };
    let z = ChunkCfg { ssrc: 0, n: NI, items: [zi; NI] };
    let mut chunks = [z; NC];
    let mut i = 0;
    while i < NC {
        chunks[i].ssrc = s.u32();
        let mut j = 0;
        while j < NI {
            chunks[i].items[j] = draw_item(s);
            j += 1;
        }
        i += 1;
    }
    let c = SdesCfg { padding, chunks };
    let b = c.builder();
    let r = b.calculate_size();
    common::forget(b);
    vcover!(NC > 31 || r.is_ok(), "accepted");
    vcover!(r.is_err(), "rejected");
    decide(r, c.valid(), c.size(), |e| {
        let mut ok = bad_padding(e, c.padding)
            || (NC > 31 && *e == E::TooManySdesChunks { count: NC, max: 31 });
        let mut i = 0;
        while i < NC {
            let mut j = 0;
            while j < NI {
                ok = ok || item_err(e, &c.chunks[i].items[j]);
                j += 1;
            }
            i += 1;
        }
        ok
    });
}

/// Limits of one item, approached from both sides through the public item writer.
pub fn sdes_item<S: Src>(s: &mut S) {
    let mut it = draw_item(s);
    // multi-byte characters: byte length and character count differ
    it.value = Text::<300>::draw_len_utf8(s, 300);
    let mut buf = [0u8; 600];
    let r = it.builder().write_into(&mut buf);
    vcover!(r.is_ok() && it.is_priv() && it.prefix.len + it.value.len == 254, "PRIV 254 accepted");
    vcover!(r.is_err() && it.is_priv() && it.prefix.len + it.value.len == 255, "PRIV 255 rejected");
    vcover!(r.is_ok() && !it.is_priv() && it.value.len == 255, "255 accepted");
    vcover!(r.is_err() && !it.is_priv() && it.value.len == 256, "256 rejected");
    decide(r, it.valid(), it.size(), |e| item_err(e, &it));
}

// ------------------------------------------------------------------ feedback

fn fb_size<'a>(fci: &'a dyn FciBuilder<'a>, c: &FbCfg) -> Result<usize, E> {
    if c.transport {
        TransportFeedback::builder(fci).sender_ssrc(c.sender).media_ssrc(c.media).padding(c.padding).calculate_size()
    } else {
        PayloadFeedback::builder(fci).sender_ssrc(c.sender).media_ssrc(c.media).padding(c.padding).calculate_size()
    }
}

/// Every FCI type in both feedback kinds; `fci_transport` says where the FCI belongs.
pub fn fb<S: Src, const FCI: u8>(s: &mut S) {
    let t = s.bool();
    let c = FbCfg::draw(s, t);
    let bits = Blob::<72>::draw_len(s, 72);
    let rp = RpsiCfg::draw_with(s, bits);
    let sli = SliCfg::<2>::draw(s);
    let seq = s.u16();
    let (r, fci_valid, fci_size, belongs_transport) = match FCI {
        0 => {
            let f = Pli::builder();
            (fb_size(&f, &c), true, 0, false)
        }
        1 => {
            let f = sli.builder();
            let r = fb_size(&f, &c);
            common::forget(f);
            (r, true, sli.size(), false)
        }
        2 => {
            let f = rp.builder();
            (fb_size(&f, &c), rp.valid(), rp.size(), false)
        }
        _ => {
            let f = Nack::builder().add_rtp_sequence(seq);
            let r = fb_size(&f, &c);
            common::forget(f);
            (r, true, 4, true)
        }
    };
    let kind_ok = belongs_transport == t;
    let valid = padding_ok(c.padding) && kind_ok && fci_valid;
    vcover!(r.is_ok(), "accepted");
    vcover!(r == Err(E::FciWrongFeedbackPacketType), "wrong kind rejected");
    decide(r, valid, c.size(fci_size), |e| {
        bad_padding(e, c.padding)
            || (!kind_ok && *e == E::FciWrongFeedbackPacketType)
            || (FCI == 2 && rp.payload_type > 127 && *e == E::PayloadTypeInvalid)
            || (FCI == 2 && (rp.overrun > 8 || (rp.bits.len == 0 && rp.overrun > 0)) && *e == E::PaddingBitsTooLarge)
    });
}

pub fn fb_fir<S: Src>(s: &mut S) {
    let t = s.bool();
    let c = FbCfg::draw(s, t);
    let f = Fir::builder().add_ssrc(s.u32(), s.u8());
    let r = fb_size(&f, &c);
    common::forget(f);
    let valid = padding_ok(c.padding) && !t;
    vcover!(r.is_ok(), "accepted");
    decide(r, valid, c.size(8), |e| bad_padding(e, c.padding) || (t && *e == E::FciWrongFeedbackPacketType));
}

// ------------------------------------------------------------------ compound

pub fn compound<S: Src>(s: &mut S) {
    let reason = Text::<12>::draw_len(s, 12);
    let bye = ByeCfg::<1, 12>::draw_with(s, reason);
    let data = Blob::<12>::draw_len(s, 12);
    let app = AppCfg::draw_with(s, data);
    let rr = RrCfg::<1>::draw(s);
    let b = Compound::builder()
        .add_packet(rr.builder())
        .add_packet(app.builder())
        .add_packet(bye.builder());
    let r = b.calculate_size();
    common::forget(b);
    let members_ok = rr.valid() && app.valid() && bye.valid();
    let non_last_padding = rr.padding > 0 || app.padding > 0;
    vcover!(r.is_ok() && bye.padding > 0, "last member padded");
    vcover!(r == Err(E::NonLastCompoundPacketPadding), "non-last padding rejected");
    decide(r, members_ok && !non_last_padding, rr.size() + app.size() + bye.size(), |e| {
        (non_last_padding && *e == E::NonLastCompoundPacketPadding)
            || rr.builder().calculate_size().err().as_ref() == Some(e)
            || app.builder().calculate_size().err().as_ref() == Some(e)
            || bye.builder().calculate_size().err().as_ref() == Some(e)
    });
}

/// A non-last member whose "no padding" answer has several spellings (`WHICH` = 0: an
/// `UnknownBuilder`, 1: a feedback builder inside the `PacketBuilder` wrapper), before an RR.
pub fn compound_first<S: Src, const WHICH: u8>(s: &mut S) {
    let u = UnknownCfg::draw_with(s, Blob::<4> { len: 4, bytes: [0x5a; 4] });
    let fbc = FbCfg::draw(s, false);
    let rr = RrCfg::<0>::draw(s);
    let pli = Pli::builder();
    let (b, first_ok, first_pad) = if WHICH == 0 {
        (Compound::builder().add_packet(u.builder()).add_packet(rr.builder()), u.valid(), u.padding)
    } else {
        let fb = PayloadFeedback::builder(&pli).sender_ssrc(fbc.sender).media_ssrc(fbc.media).padding(fbc.padding);
        (Compound::builder().add_packet(PacketBuilder::from(fb)).add_packet(rr.builder()), padding_ok(fbc.padding), fbc.padding)
    };
    let r = b.calculate_size();
    common::forget(b);
    vcover!(r.is_ok(), "accepted");
    vcover!(r == Err(E::NonLastCompoundPacketPadding), "non-last padding rejected");
    let valid = first_ok && rr.valid() && first_pad == 0;
    match r {
        Ok(_) => assert!(valid, "accepted an unrepresentable configuration"),
        Err(e) => {
            assert!(!valid, "rejected a representable configuration");
            assert!(
                (first_pad > 0 && e == E::NonLastCompoundPacketPadding)
                    || bad_padding(&e, first_pad)
                    || bad_padding(&e, rr.padding)
                    || (WHICH == 0 && u.count > 31)
                    || (WHICH == 0 && u.data.len % 4 != 0),
                "error does not name a violated rule"
            );
        }
    }
}

common::register! {
    q_compound_unknown_first = compound_first::<_, 0> => 3,
    q_compound_wrapped_fb_first = compound_first::<_, 1> => 2,
    q_sr_1 = sr::<_, 1> => 320,
    q_sr_31 = sr::<_, 31> => 320,
    q_sr_32 = sr::<_, 32> => 320,
    q_rr_2 = rr::<_, 2> => 320,
    q_rr_31 = rr::<_, 31> => 320,
    q_rr_32 = rr::<_, 32> => 320,
    q_bye_0 = bye::<_, 0> => 320,
    q_bye_31 = bye::<_, 31> => 320,
    q_bye_32 = bye::<_, 32> => 320,
    q_app = app => 320,
    q_unknown = unknown => 320,
    kf_c16_app_total_size = kf_app_total_size => 320,
    kf_c16_unknown_total_size = kf_unknown_total_size => 320,
    q_sdes_item = sdes_item => 320,
    q_sdes_1x2 = sdes::<_, 1, 2> => 4,
    q_sdes_2x1 = sdes::<_, 2, 1> => 4,
    t_sdes_32x0 = sdes::<_, 32, 0> => 34,
    q_fb_pli = fb::<_, 0> => 2,
    q_fb_sli = fb::<_, 1> => 3,
    q_fb_rpsi = fb::<_, 2> => 2,
    q_fb_nack = fb::<_, 3> => 2,
    q_compound = compound => 4,
    t_sr_0 = sr::<_, 0> => 320,
    t_sr_2 = sr::<_, 2> => 320,
    t_rr_0 = rr::<_, 0> => 320,
    t_rr_1 = rr::<_, 1> => 320,
    t_bye_1 = bye::<_, 1> => 320,
    t_bye_2 = bye::<_, 2> => 320,
    t_sdes_0 = sdes::<_, 0, 0> => 2,
    t_sdes_1x3 = sdes::<_, 1, 3> => 5,
    t_sdes_2x2 = sdes::<_, 2, 2> => 4,
}

common::register_strcount! {
    q_bye_utf8_255 = bye_utf8_limit::<_, 255, 100> => 320,
    q_bye_utf8_256 = bye_utf8_limit::<_, 256, 100> => 320,
    q_bye_utf8_300 = bye_utf8_limit::<_, 300, 60> => 320,
    q_item_utf8_255 = sdes_item_utf8_limit::<_, 255, 100, 0> => 320,
    q_item_utf8_256 = sdes_item_utf8_limit::<_, 256, 100, 0> => 320,
    q_item_utf8_priv = sdes_item_utf8_limit::<_, 200, 80, 54> => 320,
    q_item_utf8_priv_over = sdes_item_utf8_limit::<_, 200, 80, 55> => 320,
}

common::register_hashmap! {
    q_fb_fir = fb_fir => 3,
}

#[cfg(not(kani))]
pub const REGISTRIES: &[&[(&str, fn(&mut common::R))]] = &[REGISTRY, REGISTRY_HASHMAP, REGISTRY_STRCOUNT];
