#[cfg(not(kani))]
fn main() {
    common::replay_main_multi(c10::REGISTRIES)
}
#[cfg(kani)]
fn main() {}
