//! C10 — SDES decoding follows RFC 3550 chunk and item tokenisation.
//!
//! A reference tokeniser (one flat loop over the bytes, no allocation, written from RFC 3550
//! §6.5) classifies every SDES-framed byte string as
//!   * `Accept`  : well-formed — chunks of SSRC + items + null terminator + zero fill to the
//!                 next 32-bit boundary, chunk count equal to the header count, optional
//!                 trailing padding;
//!   * `Reject`  : an item overruns the packet, a PRIV prefix overruns its item, or a
//!                 non-zero byte occupies a chunk's fill;
//!   * `Either`  : everything else the tokeniser can still split (count mismatch, last chunk
//!                 without terminator ending on the boundary);
//!   * `Unsplit` : the rest (dangling bytes, PRIV item without prefix-length byte).
//! and returns chunk `j` / item `k` (both symbolic) of the tokenisation.
use common::cfg::*;
use common::refs::*;
use common::shapes::draw_sdes;
use common::{forget, vcover, Src};
use rtcp_types::prelude::*;
use rtcp_types::*;

#[derive(Clone, Copy, PartialEq, Eq, Debug)]
pub enum Status {
    Accept,
    Either,
    Reject,
    Unsplit,
}

#[derive(Clone, Copy, Debug)]
pub struct Tok {
    pub status: Status,
    pub nchunks: usize,
    // chunk j
    pub ssrc: u32,
    pub nitems: usize,
    pub chunk_len: usize,
    pub chunk_found: bool,
    // item k of chunk j
    pub item_found: bool,
    pub type_: u8,
    pub voff: usize,
    pub vlen: usize,
    pub poff: usize,
    pub plen: usize,
}

/// Tokenise `body = d[start..end]` (chunk area of an SDES packet), reporting chunk `j` and
/// item `k` of it.  Offsets are relative to `d`.
pub fn tokenise(d: &[u8], start: usize, end: usize, count: usize, j: usize, k: usize, max_steps: usize) -> Tok {
    let mut t = Tok {
        status: Status::Accept, nchunks: 0, ssrc: 0, nitems: 0, chunk_len: 0, chunk_found: false,
        item_found: false, type_: 0, voff: 0, vlen: 0, poff: 0, plen: 0,
    };
    let mut pos = start;
    let mut in_chunk = false;
    let mut chunk_start = start;
    let mut items = 0;
    let mut steps = 0;
    while pos < end && steps < max_steps {
        steps += 1;
        if !in_chunk {
            if end - pos < 4 {
                t.status = Status::Unsplit;
                return t;
            }
            chunk_start = pos;
            if t.nchunks == j {
                t.ssrc = be32(d, pos);
                t.chunk_found = true;
            }
            in_chunk = true;
            items = 0;
            pos += 4;
            if pos == end {
                // SSRC only, no terminator: ends on the boundary
                t.nchunks += 1;
                if t.nchunks - 1 == j {
                    t.nitems = 0;
                    t.chunk_len = 4;
                }
                in_chunk = false;
                if t.status == Status::Accept {
                    t.status = Status::Either;
                }
            }
            continue;
        }
        let ty = d[pos];
        if ty == 0 {
            // terminator, then zero fill to the next 32-bit boundary
            let fill_end = start + pad4(pos + 1 - start);
            if fill_end > end {
                t.status = Status::Unsplit;
                return t;
            }
            let mut q = pos + 1;
            while q < fill_end {
                if d[q] != 0 {
                    t.status = Status::Reject;
                    return t;
                }
                q += 1;
            }
            if t.nchunks == j {
                t.nitems = items;
                t.chunk_len = fill_end - chunk_start;
            }
            t.nchunks += 1;
            in_chunk = false;
            pos = fill_end;
            continue;
        }
        // an item: type, length, value
        if end - pos < 2 {
            t.status = Status::Reject;
            return t;
        }
        let l = d[pos + 1] as usize;
        if pos + 2 + l > end {
            t.status = Status::Reject;
            return t;
        }
        let (mut voff, mut vlen, mut poff, mut plen) = (pos + 2, l, 0, 0);
        if ty == PRIV {
            if l < 1 {
                t.status = Status::Unsplit;
                return t;
            }
            plen = d[pos + 2] as usize;
            if 1 + plen > l {
                t.status = Status::Reject;
                return t;
            }
            poff = pos + 3;
            voff = pos + 3 + plen;
            vlen = l - 1 - plen;
        }
        if t.nchunks == j && items == k {
            t.item_found = true;
            t.type_ = ty;
            t.voff = voff;
            t.vlen = vlen;
            t.poff = poff;
            t.plen = plen;
        }
        items += 1;
        pos += 2 + l;
        if pos == end {
            // chunk runs to the end without terminator
            if (pos - start) % 4 != 0 {
                t.status = Status::Unsplit;
                return t;
            }
            if t.nchunks == j {
                t.nitems = items;
                t.chunk_len = pos - chunk_start;
            }
            t.nchunks += 1;
            in_chunk = false;
            if t.status == Status::Accept {
                t.status = Status::Either;
            }
        }
    }
    if pos < end {
        // step budget exhausted (cannot happen within the harness bounds: checked by a cover)
        t.status = Status::Unsplit;
        return t;
    }
    if t.status == Status::Accept && t.nchunks != count {
        t.status = Status::Either;
    }
    t
}

fn same_item(i: &SdesItem<'_>, d: &[u8], t: &Tok) {
    assert!(i.type_() == t.type_, "item type differs from the tokenisation");
    let v = i.value();
    assert!(v.len() == t.vlen && v.as_ptr() == d[t.voff..].as_ptr(), "item value is not the tokenised byte range");
    if t.type_ == PRIV {
        let p = i.priv_prefix();
        assert!(p.len() == t.plen && p.as_ptr() == d[t.poff..].as_ptr(), "PRIV prefix is not the tokenised byte range");
        assert!(i.priv_prefix_len() as usize == t.plen);
    }
}

/// Arbitrary byte strings framed as an SDES packet.
pub fn packet<S: Src, const N: usize>(s: &mut S) {
    let mut data: [u8; N] = s.bytes();
    let words = s.range(1, N / 4);
    let len = 4 * words;
    // frame: version 2, PT 202, matching length field; count and padding bit stay symbolic
    data[0] = 0x80 | (data[0] & 0x3f);
    data[1] = PT_SDES;
    data[2] = 0;
    data[3] = (words - 1) as u8;
    let d = &data[..len];
    let j = s.upto(N / 4);
    let k = s.upto(N / 2);
    let pad = if d[0] & 0x20 != 0 { d[len - 1] as usize } else { 0 };
    // padding the framing layer must reject (C08/C01): not this property's subject
    let framing_ok = d[0] & 0x20 == 0 || (pad > 0 && pad <= len - 4);
    let mut second_chunk_item = false;
    let r = Sdes::parse(d);
    if !framing_ok {
        forget(r);
        return;
    }
    // trailing padding that is not a multiple of 4 leaves the chunk area unaligned: the RFC
    // does not define it, nothing is demanded
    if pad % 4 != 0 {
        forget(r);
        return;
    }
    let t = tokenise(d, 4, len - pad, (d[0] & 0x1f) as usize, j, k, N);
    match r {
        Ok(p) => {
            assert!(t.status != Status::Reject, "accepted a string RFC 3550 tokenisation rejects");
            if t.status == Status::Accept || t.status == Status::Either {
                assert!(p.chunks().count() == t.nchunks, "chunk count differs from the tokenisation");
                match p.chunks().nth(j) {
                    Some(c) => {
                        assert!(t.chunk_found && c.ssrc() == t.ssrc, "chunk SSRC differs from the tokenisation");
                        assert!(c.items().count() == t.nitems, "item count differs from the tokenisation");
                        if t.status == Status::Accept {
                            assert!(c.length() == t.chunk_len, "chunk does not report its encoded length");
                        }
                        match c.items().nth(k) {
                            Some(i) => {
                                assert!(t.item_found);
                                same_item(i, d, &t);
                                vcover!(t.type_ == PRIV, "PRIV item compared");
                                second_chunk_item = second_chunk_item || j == 1;
                            }
                            None => assert!(!t.item_found),
                        }
                    }
                    None => assert!(!t.chunk_found),
                }
            }
            vcover!(t.status == Status::Accept && pad > 0, "well-formed padded packet accepted");
            // a second chunk with an item needs 4 + 8 + 8 bytes
            vcover!(N < 20 || second_chunk_item, "item of the second chunk compared");
            forget(p);
        }
        Err(_) => {
            assert!(t.status != Status::Accept, "rejected a well-formed SDES packet");
            vcover!(t.status == Status::Reject, "ill-formed packet rejected");
        }
    }
}

/// The chunk parser as a unit (hook): same oracle on a chunk area of up to `N` bytes.
pub fn chunk<S: Src, const N: usize>(s: &mut S) {
    let data: [u8; N] = s.bytes();
    let len = s.upto(N);
    let d = &data[..len];
    let k = s.upto(N / 2);
    // tokenise the first chunk only: count = 1, chunk 0
    let t = tokenise(d, 0, len, 1, 0, k, N);
    if let Ok((c, end)) = verif::sdes::chunk_parse(d) {
        // a chunk unit parse consumes one chunk; the reference may see more chunks behind it
        if t.status != Status::Unsplit && t.status != Status::Reject && t.chunk_found && t.chunk_len > 0 {
            assert!(end == t.chunk_len, "chunk parser consumed a different number of bytes");
            assert!(c.ssrc() == t.ssrc && c.items().count() == t.nitems);
            if let Some(i) = c.items().nth(k) {
                assert!(t.item_found);
                same_item(i, d, &t);
                vcover!(true, "item compared");
            }
        }
        forget(c);
    }
}

/// The item parser as a unit (hook): every item of up to 300 bytes.
pub fn item<S: Src>(s: &mut S) {
    let data: [u8; 300] = s.bytes();
    let len = s.upto(300);
    let d = &data[..len];
    let r = verif::sdes::item_parse(d);
    if len < 2 {
        assert!(r.is_err());
        return;
    }
    let l = d[1] as usize;
    let overrun = 2 + l > len;
    let is_priv = d[0] == PRIV;
    let prefix_overrun = !overrun && is_priv && l >= 1 && 1 + d[2] as usize > l;
    match r {
        Ok((i, end)) => {
            assert!(!overrun, "accepted an item that overruns its input");
            assert!(!prefix_overrun, "accepted a PRIV prefix that overruns its item");
            assert!(end == 2 + l && i.type_() == d[0] && i.length() == l);
            if is_priv {
                let pl = d[2] as usize;
                assert!(i.priv_prefix().as_ptr() == d[3..].as_ptr() && i.priv_prefix().len() == pl);
                assert!(i.value().as_ptr() == d[3 + pl..].as_ptr() && i.value().len() == l - 1 - pl);
                vcover!(pl > 0 && l - 1 - pl > 0, "PRIV with prefix and value");
            } else {
                assert!(i.value().as_ptr() == d[2..].as_ptr() && i.value().len() == l);
                vcover!(l == 255, "255-byte value");
            }
        }
        Err(_) => {
            // a complete, well-formed item must be accepted
            assert!(overrun || prefix_overrun || (is_priv && l < 1), "rejected a well-formed item");
            vcover!(prefix_overrun, "PRIV prefix overrun rejected");
        }
    }
}

/// Well-formed packets from the reference encoder are accepted with exactly their tokens and
/// each chunk reports its encoded length.
pub fn encoded<S: Src, const NC: usize, const NI: usize, const L: usize, const B: usize>(s: &mut S, counts: [usize; NC]) {
    let c = draw_sdes::<S, NC, NI, L>(s, counts);
    s.assume(c.valid() && c.padding <= 8);
    let kc = s.upto(NC);
    let ki = s.upto(NI);
    let j = s.upto(L);
    let mut buf = [0u8; B];
    assert!(c.size() <= B, "HARNESS: buffer array too small");
    let n = c.render(&mut buf);
    let mut priv_seen = false;
    let mut any_items = false;
    let mut z = 0;
    while z < NC {
        any_items = any_items || c.chunks[z].n > 0;
        z += 1;
    }
    let p = Sdes::parse(&buf[..n]).expect("well-formed SDES packet rejected");
    assert!(p.chunks().count() == NC, "chunk count differs");
    if kc < NC {
        let pc = p.chunks().nth(kc).expect("chunk missing");
        let cc = &c.chunks[kc];
        assert!(pc.ssrc() == cc.ssrc && pc.items().count() == cc.n);
        assert!(pc.length() == cc.size(), "chunk does not report its encoded length");
        if ki < cc.n {
            let pi = pc.items().nth(ki).expect("item missing");
            let ci = &cc.items[ki];
            assert!(pi.type_() == ci.type_ && pi.value().len() == ci.value.len);
            if j < ci.value.len {
                assert!(pi.value()[j] == ci.value.bytes[j]);
            }
            if ci.is_priv() {
                assert!(pi.priv_prefix().len() == ci.prefix.len);
                if j < ci.prefix.len {
                    assert!(pi.priv_prefix()[j] == ci.prefix.bytes[j]);
                }
            }
            priv_seen = ci.is_priv();
        }
    }
    vcover!(NI == 0 || !any_items || priv_seen, "PRIV item of an encoded packet");
    vcover!(c.padding > 0, "padded encoded packet");
    forget(p);
}

pub fn e_1x1<S: Src>(s: &mut S) { encoded::<S, 1, 1, 3, 32>(s, [1]) }
pub fn e_1x2<S: Src>(s: &mut S) { encoded::<S, 1, 2, 3, 40>(s, [2]) }
pub fn e_2x1<S: Src>(s: &mut S) { encoded::<S, 2, 1, 3, 48>(s, [1, 1]) }
pub fn e_2x0<S: Src>(s: &mut S) { encoded::<S, 2, 1, 1, 32>(s, [0, 0]) }
pub fn e_2x21<S: Src>(s: &mut S) { encoded::<S, 2, 2, 3, 64>(s, [2, 1]) }
pub fn e_3x1<S: Src>(s: &mut S) { encoded::<S, 3, 1, 2, 64>(s, [1, 1, 1]) }

common::register! {
    q_item = item => 2,
    q_chunk = chunk::<_, 16> => 2,
    q_packet = packet::<_, 16> => 2,
    q_e_1x1 = e_1x1 => 2,
    t_e_1x2 = e_1x2 => 2,
    t_e_2x1 = e_2x1 => 2,
    q_e_2x0 = e_2x0 => 2,
    t_chunk = chunk::<_, 32> => 2,
    t_packet = packet::<_, 24> => 2,
    t_e_2x21 = e_2x21 => 2,
    t_e_3x1 = e_3x1 => 2,
}

#[cfg(not(kani))]
pub const REGISTRIES: &[&[(&str, fn(&mut common::R))]] = &[REGISTRY];
