#!/bin/bash
# usage: seed_new.sh "name|srcdir|prop|needs|checks" ...  (confirm in a scratch worktree, then evaluate)
cd /verif
for spec in "$@"; do
  IFS='|' read name src prop needs checks <<< "$spec"
  mkdir -p seeded/$name
  [ -f $src/notes.md ] && cp $src/notes.md seeded/$name/agent_notes.md
  python3 tools/seed_eval.py $name $src/patch.diff $src/demo.rs $prop "$needs" --checks $checks > work/seed_$name.log 2>&1
  echo "$name done: $(python3 -c "import json;m=json.load(open('seeded/$name/meta.json'));print(m.get('kept'), m.get('caught_by'), {c:r['exit'] for c,r in m.get('checks',{}).items()})")" >> work/seed_batch.status
done
