#!/bin/bash
# run thorough checks of the given properties one after the other, logs in /verif/work
cd /verif
jobs=${JOBS:-10}
for c in "$@"; do
  lc=$(echo $c | tr A-Z a-z)
  ./check $c --tier thorough --jobs $jobs --no-evidence > work/${lc}_thorough.log 2>&1
  echo "$c thorough exit=$?" >> work/runt.status
done
