#!/usr/bin/env python3
"""Writes /verif/MANIFEST.json from the table below (kept in one place so the manifest stays
valid and consistent with what is built)."""
import json, os, subprocess
V = os.path.dirname(os.path.dirname(os.path.abspath(__file__)))

TECH = "bounded model checking of the real crate: Kani 0.68 MIR->goto codegen, CBMC 6.11 + CaDiCaL decide every assertion for all symbolic inputs within stated bounds (unwinding assertions on); counterexamples replayed natively"
NOTE = ("Trusted: rustc/Kani MIR->goto translation and Kani's alloc models, CBMC, CaDiCaL; dev profile with "
        "overflow checks (replays also run in release); std containers behave as documented; the reference "
        "codecs in harness/common (written from the RFCs); bounds listed in the evidence file. Nothing beyond the bounds is claimed.")

# id -> (claimed?, level text, design ref)
CLAIMS = {
 "C01": "Every public parse entry and every accessor/iterator of its result is symbolically executed on all byte strings up to the stated lengths (loop-free parsers 300 B, iterating ones 64 B plus full-count RR/SR of 776/796 B, SDES 16 B / items 300 B, FCI 16-40 B; thorough 1100 B / 256 B / 24 B / 1024 B); absence of any reachable panic and explicit iterator step bounds are decided by the solver; NACK and compound iteration as one step from every reachable state (induction on the asserted rank). Bounded, not a proof.",
 "C02": "Builder -> bytes -> parser with every SR/RR/report-block field symbolic over its full range and padding any u8; block counts 0,1,2 and RR with 31 (thorough 3,31,32); one symbolic block index compared. All values within those shapes are covered by the SAT queries.",
 "C04": "BYE (0..2 sources, reason length symbolic 0..24 with symbolic content, limits 254/255, padding <= 12; thorough: 31/32 sources, 128-byte reasons, limits 252..256, any legal padding) and APP (name 0..5 bytes incl. non-ASCII, payload 0..32) build->parse round trips into 0xA5-prefilled buffers; sources, reason bytes, name fill, payload and padding compared at symbolic indices.",
 "C05": "Feedback build->parse->parse_fci round trips: PLI (any padding), SLI 1/3 entries, RPSI 0..8 bytes x any overrun x any payload type compared bit by bit, NACK 1 symbolic sequence through the real BTreeSet builder plus the encoder unit (hook) over <= 4 ascending values composed with the crate's decoder, FIR 1 symbolic entry (HashMap, RandomState stubbed). Thorough widens each.",
 "C06": "For every builder type (SR, RR, BYE, APP, Unknown, SDES packet/chunk/item, both feedback builders x PLI/SLI/RPSI/NACK/FIR borrowed and owned, PacketBuilder wrapper, compounds incl. nested and third-party members) with text/payload lengths symbolic over their full ranges and the buffer length symbolic 0..=n+slack: announced size == written size, OutputTooSmall(n) below, same error when rejected, n % 4 == 0. Multi-byte texts (byte length != character count) in symbolic-length and short concrete instances; prefix() called on every SDES item.",
 "C08": "Every input string up to the stated length (64 B quick / 256 B thorough; SDES 16/24 B) is covered by one SAT query per parser: acceptance implies exact framing and the header accessors return the header bytes. Bounded, not a proof.",
 "C09": "(a) every accepted input up to 300 B for APP/Unknown/feedback headers and 64-80 B for SR/RR/BYE (1100 B / 256 B thorough): accessors equal reference big-endian reads at the RFC offsets and returned slices are the input's own memory at the RFC offset (pointer comparison); (b) packets from the reference encoder over symbolic fields are accepted with the same field values.",
 "C16": "calculate_size of every builder with lengths symbolic across every limit (reason/value/prefix 0..300, APP/Unknown payload 0..300000, counts 31/32, names 4/5, payload type 127/128, overrun 8/9; concrete multi-byte texts at the byte limits): Err iff a rule of the statement is violated and the error names a violated rule with the offending value. The >65536-word rule is a listed known finding (twin harnesses).",
 "C18": "Every rejection by every packet parser, the generic parser, compound parsing, report blocks, FCI parsers and the SDES units on all inputs up to 300 B for the fixed-layout packet parsers (1100 B thorough), 64/256 B for the generic parser, SDES 16/24 B: error fields are those of the input (version, types, expected vs actual ordering, exact minimum / header length).",
 "C03": "SDES builder -> bytes -> Sdes::parse with shapes (chunks x items) 0, 1x0, 1x1, 2x0 (thorough: 1x2, 2x1, 2x(2,1), 2x(0,1), 3x1, 1x3, owned items, limits 252..256, PRIV sums 253..255, any legal padding), SSRCs fully symbolic (leading zero bytes included), item types symbolic non-zero (PRIV and non-PRIV), value/prefix lengths symbolic with symbolic content; chunk count, SSRC, item count, type, value and prefix bytes compared at symbolic indices.",
 "C07": "One symbolic byte index of every writer's output is compared with a closed-form reference image written from the RFC figures (header, big-endian fields, length-prefixed text, SDES terminator/fill, padding trailer) over buffers pre-filled with 0xA5; NACK word encoder as a unit against the greedy minimum cover; FIR order-insensitive; compound = concatenation of member images.",
 "C10": "A three-valued reference tokeniser (RFC 3550 6.5, one flat loop over the bytes) classifies every SDES-framed string of 4..16 bytes (24 thorough) over the full byte alphabet; parser Ok on a must-reject string or Err on a well-formed one is a violation, yielded chunks/items must be the tokenised byte ranges (pointer comparison), chunk.length() the encoded size; item unit for every string <= 300 B, chunk unit <= 16/32 B; reference-encoded packets must be accepted with their tokens.",
 "C11": "Compound::parse accepts exactly the non-empty strings the reference tiling partitions (<= 64 B, 256 B thorough); one next() from every reachable iterator state (hook) returns the generic parser's result for the tile, advances by the tile length, stops after an error or the last tile and stays stopped; the clauses for any number of tiles follow by induction on the number of calls.",
 "C12": "For every byte string of 4..32 bytes (128 thorough; SDES-typed inputs 12/16) and each of the 7 conversion targets: variant selected by the type byte, outcome equal to the typed parser (fingerprint of accessors and slice pointers / equal error values), conversions by reference and by value: matching variant -> value, other known variant -> PacketTypeMismatch{actual, requested}, unknown -> exactly the typed parser's result.",
 "C13": "Pairs of reference-encoded packets (without and with RFC 3550 padding, padding symbolic in {4,8,12}; any legal padding in thorough) for SR, RR, BYE, APP, SDES and feedback packets with every FCI type: same parser accepts both, padding() reports the amount, every content accessor agrees at a symbolic index.",
 "C14": "Compounds of 0..3 members over RR, SR, BYE, APP, Unknown, PSFB+SLI, PacketBuilder-wrapped, SDES (last and non-last), nested compound and a third-party writer (also non-last, reporting no padding as None or Some(0)) with symbolic fields and paddings; 'requests padding' comes from the configuration record, not from get_padding(): accepted iff all members valid and no non-last padding, size = sum, byte i = the member image's byte, parse-back yields one packet per member equal to the member parsed alone.",
 "C15": "For every accepted feedback packet <= 40 B (64 thorough) and all five FCI types in both kinds: decoding succeeds only for the matching kind and format; FIR/SLI entry k, RPSI (FCI up to 300 B, 1100 thorough) payload type and bit string are the RFC fields of the FCI bytes (pointer comparison for the bit string); PLI only empty; NACK as one step from every (word, slot) position against the RFC sequence (whole 2^32 word space in one query), by induction for any number of words.",
 "C17": "Two buffers of equal symbolic length with independent arbitrary prior contents and one symbolic observed index: same result, written bytes independent of prior contents, bytes beyond n and all bytes on failure unchanged, for every builder shape of C07 plus SDES chunk/item writers, FIR and a compound.",
 "C19": "A family of third-party packet types Custom<PT, MIN> built only on the public helpers (PT in {0,192,242,255}, MIN in {4,8,12,28}): header/padding writers against the RFC image for every buffer length multiple of 4 up to 1024 and every padding; check_packet against a three-valued framing predicate on all strings <= 300 B (1100 thorough); written packets come back as Unknown with the exact bytes, convert back with every field, embed in compounds; UnknownBuilder against the reference image.",
 "C20": "Call histories as data: K = 3 (2 for list builders) symbolic choices among each builder's setters with symbolic arguments against a canonical builder made from a shadow record (last value per setter, lists in insertion order): same size/error and same bytes at a symbolic index; owned/borrowed variants, PacketBuilder wrapper, one-member compound, FIR re-add (last sequence wins, through the real HashMap) in quick, NACK re-add and two-builder FIR re-add in thorough.",
}
# properties whose quick check has been seen green on the unchanged tree at this revision
READY = " ".join("C%02d" % i for i in range(1, 21)).split()
PENDING = "check not built yet in this revision (work in progress; technique applies)"

def main():
    repo_commits = subprocess.run(["git", "-C", "/repo", "log", "--format=%H %s"], capture_output=True, text=True).stdout.splitlines()
    hooks = [l.split()[0] for l in repo_commits if "verif-hooks" in l]
    ids = ["C%02d" % i for i in range(1, 21)]
    checks = []
    na = []
    for i in ids:
        if i in CLAIMS and i in READY:
            checks.append({
                "property_id": i,
                "quick_cmd": "./check %s --tier quick" % i,
                "thorough_cmd": "./check %s --tier thorough" % i,
                "evidence_file": "/verif/evidence/%s.json" % i,
                "replay_cmd_template": "./check --replay {path}",
                "engine": "kani-cbmc",
                "level_claimed": {"category": "model_checking", "text": CLAIMS[i], "design_ref": "DESIGN.md section 5, " + i},
                "level_note": NOTE,
                "technique": TECH,
            })
        else:
            na.append({"property_id": i, "reason": PENDING})
    m = {
        "version": 1,
        "setup_cmd": "./setup.sh",
        "hooks": {
            "guard": "cargo feature verif-hooks",
            "enable": "harness workspace depends on /repo by path with features = [\"verif-hooks\"] (harness/Cargo.toml)",
            "baseline_off_cmd": "cd /repo && cargo test --workspace --no-fail-fast --offline",
            "source_commits": hooks,
            "add_only": True,
        },
        "engines": [{
            "name": "kani-cbmc", "path": "/verif/check",
            "serves_properties": sorted(c for c in CLAIMS if c in READY),
            "kind_free_text": "Kani 0.68 compiles /repo (working tree) + harness crate to goto programs once per property; the driver runs goto-cc/goto-instrument exactly as kani-driver does and then CBMC 6.11 (CaDiCaL) per harness in parallel with per-loop --unwindset bounds and unwinding assertions; failing traces are turned into input vectors and replayed against the native build (dev+release)."
        }],
        "checks": checks,
        "not_applicable": na,
        "notes": "Exit codes of ./check: 0 pass, 1 VIOLATION (reproduced natively), 2 inconclusive (never a pass). In the thorough tier a t_ harness that exhausts its time/memory cap is printed as NOT-DECIDED and listed under coverage.not_decided in the evidence; it explored nothing and does not change the exit code (DESIGN.md section 14). Known findings: /verif/known_findings.json. Seeded changes and the checks that catch them: DESIGN.md section 15, /verif/seeded/.",
    }
    if not na:
        del m["not_applicable"]
    with open(os.path.join(V, "MANIFEST.json"), "w") as f:
        json.dump(m, f, indent=1)
        f.write("\n")

main()
