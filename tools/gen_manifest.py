#!/usr/bin/env python3
"""Writes /verif/MANIFEST.json from the table below (kept in one place so the manifest stays
valid and consistent with what is built)."""
import json, os, subprocess
V = os.path.dirname(os.path.dirname(os.path.abspath(__file__)))

TECH = "bounded model checking of the real crate: Kani 0.68 MIR->goto codegen, CBMC 6.11 + CaDiCaL decide every assertion for all symbolic inputs within stated bounds (unwinding assertions on); counterexamples replayed natively"
NOTE = ("Trusted: rustc/Kani MIR->goto translation and Kani's alloc models, CBMC, CaDiCaL; dev profile with "
        "overflow checks (replays also run in release); std containers behave as documented; the reference "
        "codecs in harness/common (written from the RFCs); bounds listed in the evidence file. Nothing beyond the bounds is claimed.")

# id -> (claimed?, level text, design ref)
CLAIMS = {
 "C08": "Every input string up to the stated length (64 B quick / 256 B thorough; SDES 16/24 B) is covered by one SAT query per parser: acceptance implies exact framing and the header accessors return the header bytes. Bounded, not a proof.",
}
PENDING = "check not built yet in this revision (work in progress; technique applies)"

def main():
    repo_commits = subprocess.run(["git", "-C", "/repo", "log", "--format=%H %s"], capture_output=True, text=True).stdout.splitlines()
    hooks = [l.split()[0] for l in repo_commits if "verif-hooks" in l]
    ids = ["C%02d" % i for i in range(1, 21)]
    checks = []
    na = []
    for i in ids:
        if i in CLAIMS:
            checks.append({
                "property_id": i,
                "quick_cmd": "./check %s --tier quick" % i,
                "thorough_cmd": "./check %s --tier thorough" % i,
                "evidence_file": "/verif/evidence/%s.json" % i,
                "replay_cmd_template": "./check --replay {path}",
                "engine": "kani-cbmc",
                "level_claimed": {"category": "model_checking", "text": CLAIMS[i], "design_ref": "DESIGN.md section 5, " + i},
                "level_note": NOTE,
                "technique": TECH,
            })
        else:
            na.append({"property_id": i, "reason": PENDING})
    m = {
        "version": 1,
        "setup_cmd": "./setup.sh",
        "hooks": {
            "guard": "cargo feature verif-hooks",
            "enable": "harness workspace depends on /repo by path with features = [\"verif-hooks\"] (harness/Cargo.toml)",
            "baseline_off_cmd": "cd /repo && cargo test --workspace --no-fail-fast --offline",
            "source_commits": hooks,
            "add_only": True,
        },
        "engines": [{
            "name": "kani-cbmc", "path": "/verif/check",
            "serves_properties": sorted(CLAIMS),
            "kind_free_text": "Kani 0.68 compiles /repo (working tree) + harness crate to goto programs once per property; the driver runs goto-cc/goto-instrument exactly as kani-driver does and then CBMC 6.11 (CaDiCaL) per harness in parallel with per-loop --unwindset bounds and unwinding assertions; failing traces are turned into input vectors and replayed against the native build (dev+release)."
        }],
        "checks": checks,
        "not_applicable": na,
        "notes": "Exit codes of ./check: 0 pass, 1 VIOLATION (reproduced natively), 2 inconclusive (never a pass). Known findings: /verif/known_findings.json.",
    }
    if not na:
        del m["not_applicable"]
    with open(os.path.join(V, "MANIFEST.json"), "w") as f:
        json.dump(m, f, indent=1)
        f.write("\n")

main()
