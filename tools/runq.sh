#!/bin/bash
# run quick checks of the given properties one after the other, logs in /verif/work
cd /verif
jobs=${JOBS:-8}
for c in "$@"; do
  lc=$(echo $c | tr A-Z a-z)
  ./check $c --jobs $jobs > work/${lc}_quick.log 2>&1
  echo "$c exit=$?" >> work/runq.status
done
