#!/usr/bin/env python3
"""Markdown table of the seeded changes under /verif/seeded and which checks catch them."""
import json, os, glob
rows = []
for d in sorted(glob.glob("/verif/seeded/*/meta.json")):
    m = json.load(open(d))
    if not m.get("kept", True):
        continue
    checks = m.get("checks", {})
    outcome = []
    for c, r in sorted(checks.items()):
        if r["exit"] == 1 and r["violations"]:
            outcome.append("%s: VIOLATION" % c)
        elif r["exit"] == 0:
            outcome.append("%s: pass (missed)" % c)
        else:
            outcome.append("%s: inconclusive" % c)
    rows.append((m["name"], m["breaks"], m["needs_to_manifest"], "; ".join(outcome) or "not yet evaluated"))
print("| seeded change | breaks | needs, to manifest | checks run against it |")
print("|---|---|---|---|")
for r in rows:
    print("| %s | %s | %s | %s |" % r)
caught = sum(1 for r in rows if "VIOLATION" in r[3])
print()
print("%d seeded changes kept, %d caught by at least one check (VIOLATION with native replay), %d evaluated but not caught, %d not yet evaluated."
      % (len(rows), caught, sum(1 for r in rows if "VIOLATION" not in r[3] and "not yet" not in r[3]), sum(1 for r in rows if "not yet" in r[3])))
