#!/bin/bash
# usage: seed_batch.sh name:checks ...   (evaluates seeded changes one after the other)
cd /verif
for spec in "$@"; do
  IFS=: read name checks <<< "$spec"
  needs=$(python3 -c "import json;print(json.load(open('seeded/$name/meta.json'))['needs_to_manifest'])")
  prop=$(python3 -c "import json;print(json.load(open('seeded/$name/meta.json'))['breaks'])")
  python3 tools/seed_eval.py $name seeded/$name/patch.diff seeded/$name/demo.rs $prop "$needs" --skip-confirm --checks $checks > work/seed_$name.log 2>&1
  echo "$name done: $(python3 -c "import json;print(json.load(open('seeded/$name/meta.json')).get('caught_by'))")" >> work/seed_batch.status
done
