#!/usr/bin/env python3
"""Markdown summary of what each check covers, generated from harness/cNN/bounds.json and the
harness registries (number of quick / thorough harnesses)."""
import json, re, os
for i in range(1, 21):
    c = "c%02d" % i
    b = json.load(open("/verif/harness/%s/bounds.json" % c))
    src = open("/verif/harness/%s/src/lib.rs" % c).read()
    names = re.findall(r"^\s+((?:q|t|kf)_\w+) = ", src, re.M)
    q = [n for n in names if n.startswith("q_")]
    t = [n for n in names if n.startswith("t_")]
    k = [n for n in names if n.startswith("kf_")]
    print("### C%02d — %d quick harnesses, %d more in thorough%s" % (i, len(q), len(t), (", %d known-finding twins" % len(k)) if k else ""))
    for a in b.get("assumptions", []):
        print("* " + a)
    print()
