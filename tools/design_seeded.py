#!/usr/bin/env python3
"""Rewrites section 15 of DESIGN.md (seeded changes and the checks that catch them) from the
meta.json files under /verif/seeded."""
import json, glob, re, subprocess
rows = []
for d in sorted(glob.glob("/verif/seeded/*/meta.json")):
    m = json.load(open(d))
    if not m.get("kept", True):
        continue
    caught, missed, inc = [], [], []
    for c, r in sorted(m.get("checks", {}).items()):
        if r["exit"] == 1 and r["violations"]:
            hs = sorted({re.search(r"/([^/]+)-[0-9a-f]+\.json$", v).group(1) for v in r["violations"]
                         if re.search(r"/([^/]+)-[0-9a-f]+\.json$", v)})
            caught.append("%s (%s)" % (c, ", ".join(hs[:3]) + (", …" if len(hs) > 3 else "")))
        elif r["exit"] == 0:
            missed.append(c)
        else:
            inc.append(c)
    rows.append((m["name"], m["breaks"], m["needs_to_manifest"].replace("|", "/"), "; ".join(caught) or "—",
                 ", ".join(missed) or "—", ", ".join(inc) or "—"))
out = ["## 15. Seeded changes and the checks that catch them\n",
       "Each change was written by a sub-agent that saw only the property text and a scratch worktree",
       "(nothing from /verif), was confirmed here (patch applies to /repo HEAD, the 94 tests pass with it,",
       "its demonstration fails with it and passes without) and is kept under `/verif/seeded/<name>/`",
       "(`patch.diff`, `demo.rs`, `meta.json` with what was run).  The checks named were run in the quick",
       "tier against a scratch worktree with the patch applied (`./check <id> --repo <worktree>`); \"caught\"",
       "means exit 1 with a `VIOLATION` line whose vector reproduced natively, the harnesses in",
       "parentheses are the ones that reported it.  \"passes\" lists checks that were run and exit 0 —",
       "for a check other than the broken property's own that is usually correct (the change does not",
       "break that property), for the own property it is a miss.  \"inconclusive\" is exit 2.\n",
       "| seeded change | breaks | needs, to manifest | caught by (quick tier) | passes | inconclusive |",
       "|---|---|---|---|---|---|"]
for r in rows:
    out.append("| %s | %s | %s | %s | %s | %s |" % r)
n = len(rows)
own_caught = sum(1 for r in rows if re.search(r"\b%s \(" % r[1], r[3]))
any_caught = sum(1 for r in rows if r[3] != "—")
out.append("")
out.append("%d seeded changes kept; %d are caught by at least one check, %d by the check of the property "
           "they were written to break." % (n, any_caught, own_caught))
notcaught = [r for r in rows if r[3] == "—"]
if notcaught:
    out.append("")
    out.append("Not caught by any check run against them: " + "; ".join("%s (%s)" % (r[0], "inconclusive: " + r[5] if r[5] != "—" else "passes: " + r[4]) for r in notcaught) + ".")
text = "\n".join(out) + "\n"
p = "/verif/DESIGN.md"
s = open(p).read()
i = s.find("## 15. Seeded changes")
if i >= 0:
    j = s.find("\n## ", i + 5)
    s = s[:i] + text + (s[j + 1:] if j >= 0 else "")
else:
    s = s.rstrip("\n") + "\n\n" + text
open(p, "w").write(s)
print("section 15: %d rows, %d caught, %d by own check" % (n, any_caught, own_caught))
