#!/bin/bash
# scaffold harness crate $1 (e.g. c06)
set -e
c=$1
cd /verif/harness
mkdir -p $c/src/bin
sed "s/c08/$c/g" c08/Cargo.toml > $c/Cargo.toml
cat > $c/src/bin/replay.rs <<EOT
#[cfg(not(kani))]
fn main() {
    common::replay_main_multi($c::REGISTRIES)
}
#[cfg(kani)]
fn main() {}
EOT
grep -q "\"$c\"" Cargo.toml || sed -i "s/^members = \[\(.*\)\]/members = [\1, \"$c\"]/" Cargo.toml
