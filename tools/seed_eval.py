#!/usr/bin/env python3
"""Confirm a seeded change (patch + demonstration) in a scratch worktree, then run the given
checks against /repo with the patch applied and record everything under /verif/seeded/<name>/.

usage: seed_eval.py <name> <patch.diff> <demo.rs> <property-broken> <needs-text> [--checks C01,C05] [--tier quick]
"""
import json, os, shutil, subprocess, sys, time, argparse

ap = argparse.ArgumentParser()
ap.add_argument("name"); ap.add_argument("patch"); ap.add_argument("demo"); ap.add_argument("prop")
ap.add_argument("needs")
ap.add_argument("--checks", default=None)
ap.add_argument("--tier", default="quick")
ap.add_argument("--only", default=None)
ap.add_argument("--skip-confirm", action="store_true")
a = ap.parse_args()
V = "/verif"
out = os.path.join(V, "seeded", a.name)
os.makedirs(out, exist_ok=True)
for src, dst in ((a.patch, "patch.diff"), (a.demo, "demo.rs")):
    if os.path.abspath(src) != os.path.join(out, dst):
        shutil.copyfile(src, os.path.join(out, dst))
env = dict(os.environ, CARGO_NET_OFFLINE="true")

def sh(cmd, cwd=None):
    r = subprocess.run(cmd, cwd=cwd, shell=True, stdout=subprocess.PIPE, stderr=subprocess.STDOUT, text=True, env=env)
    return r.returncode, r.stdout

meta_path = os.path.join(out, "meta.json")
meta = json.load(open(meta_path)) if os.path.exists(meta_path) else {}
meta.update({"name": a.name, "breaks": a.prop, "needs_to_manifest": a.needs})
base = subprocess.run("git -C /repo rev-parse --short HEAD", shell=True, capture_output=True, text=True).stdout.strip()
meta["repo_base"] = base

if not a.skip_confirm:
    wt = "/tmp/seedwt_" + a.name
    sh("git -C /repo worktree remove --force %s" % wt)
    rc, o = sh("git -C /repo worktree add -q --detach %s HEAD" % wt)
    assert rc == 0, o
    try:
        shutil.copyfile(a.demo, os.path.join(wt, "tests", "zz_demo.rs"))
        rc0, o0 = sh("cargo test --offline --test zz_demo 2>&1 | tail -n 15", wt)
        demo_passes_without = "test result: ok" in o0
        rc, o = sh("git apply %s" % os.path.abspath(a.patch), wt)
        applies = rc == 0
        rc1, o1 = sh("cargo test --offline --test zz_demo 2>&1 | tail -n 25", wt)
        demo_fails_with = "test result: FAILED" in o1 or "error: test failed" in o1
        os.remove(os.path.join(wt, "tests", "zz_demo.rs"))
        rc2, o2 = sh("cargo test --offline 2>&1 | grep -E 'test result|FAILED|panicked' | head -n 10", wt)
        passed = sum(int(l.split("ok. ")[1].split(" passed")[0]) for l in o2.splitlines() if "test result: ok." in l)
        suite_ok = "FAILED" not in o2 and passed == 94
        meta["confirmation"] = {
            "patch_applies": applies, "demo_passes_without_patch": demo_passes_without,
            "demo_fails_with_patch": demo_fails_with, "suite_passes_with_patch": suite_ok,
            "suite_tests_passed": passed,
            "ran": ["cargo test --offline --test zz_demo (unpatched)", "git apply patch.diff",
                    "cargo test --offline --test zz_demo (patched)", "cargo test --offline (patched, demo removed)"],
            "demo_output_with_patch": o1[-800:],
        }
    finally:
        sh("git -C /repo worktree remove --force %s" % wt)
    print("confirmation:", {k: v for k, v in meta["confirmation"].items() if k not in ("ran", "demo_output_with_patch")})
    if not (applies and demo_passes_without and demo_fails_with and suite_ok):
        meta["kept"] = False
        json.dump(meta, open(meta_path, "w"), indent=1)
        print("NOT CONFIRMED")
        sys.exit(3)
    meta["kept"] = True

if a.checks:
    # the patch is applied to a scratch worktree and the checks are pointed at it (--repo):
    # /repo itself stays untouched, several evaluations can run side by side
    wt = "/tmp/seedrun_" + a.name
    sh("git -C /repo worktree remove --force %s" % wt)
    rc, o = sh("git -C /repo worktree add -q --detach %s HEAD" % wt)
    assert rc == 0, o
    rc, o = sh("git apply %s" % os.path.abspath(os.path.join(out, "patch.diff")), wt)
    assert rc == 0, o
    results = meta.get("checks", {})
    try:
        for c in a.checks.split(","):
            t0 = time.time()
            cmd = "./check %s --tier %s --repo %s --jobs %s" % (c, a.tier, wt, os.environ.get("JOBS", "6")) + (" --only '%s'" % a.only if a.only else "")
            rc, o = sh(cmd, V)
            viol = [l for l in o.splitlines() if l.startswith("VIOLATION")]
            detail = [l for l in o.splitlines() if "native:" in l or "INCONCLUSIVE" in l][:8]
            results[c] = {"cmd": cmd.replace(wt, "<worktree with patch.diff applied>"), "exit": rc, "violations": viol, "detail": detail, "wall_s": round(time.time() - t0)}
            print(c, "exit", rc, viol[:3], detail[:3])
    finally:
        import hashlib
        tag = hashlib.sha1(os.path.abspath(wt).encode()).hexdigest()[:8]
        shutil.rmtree(os.path.join(V, "work", "alt", tag), ignore_errors=True)
        sh("git -C /repo worktree remove --force %s" % wt)
    meta["checks"] = results
    meta["caught_by"] = sorted(c for c, r in results.items() if r["exit"] == 1 and r["violations"])
json.dump(meta, open(meta_path, "w"), indent=1)
