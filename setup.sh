#!/bin/bash
# Builds what the checks need from files on disk only (offline), and verifies that the CBMC
# pipeline /verif/check drives by hand is the one this Kani version would run itself.
set -euo pipefail
cd "$(dirname "$0")"
export CARGO_NET_OFFLINE=true
for t in cargo-kani cbmc goto-cc goto-instrument python3; do
  command -v "$t" >/dev/null || { echo "setup: missing tool $t"; exit 1; }
done
mkdir -p target work replays evidence
cd harness
# canary: flag set of kani-driver vs the driver's
out=$(cargo kani -p common --harness canary --no-assertion-reach-checks --target-dir ../target/kani --verbose 2>&1) || { echo "$out" | tail -30; echo "setup: canary harness failed"; exit 1; }
line=$(echo "$out" | grep -E 'Running: `cbmc ' | head -1)
for f in --no-malloc-may-fail --no-undefined-shift-check --no-signed-overflow-check --nan-check --no-self-loops-to-assumptions --no-pointer-primitive-check "--object-bits 16" "--sat-solver cadical" --slice-formula; do
  echo "$line" | grep -q -- "$f" || { echo "setup: kani-driver no longer passes '$f' to cbmc: $line"; exit 1; }
done
extra=$(echo "$line" | sed -e 's/.*`cbmc //' -e 's/`$//' | tr ' ' '\n' | grep -E '^--' | grep -v -E '^--(no-malloc-may-fail|no-undefined-shift-check|no-signed-overflow-check|nan-check|no-self-loops-to-assumptions|no-pointer-primitive-check|object-bits|sat-solver|slice-formula|unwind|verbosity|json-ui|unwinding-assertions|no-standard-checks)$' || true)
if [ -n "$extra" ]; then echo "setup: kani-driver passes cbmc flags the driver does not know: $extra"; exit 1; fi
echo "$out" | grep -q "VERIFICATION:- SUCCESSFUL" || { echo "setup: canary did not verify"; exit 1; }
# warm the native target (replay binaries are built on demand per property)
cargo build --offline -q -p common --target-dir ../target/native
cargo build --offline -q -p common --release --target-dir ../target/native
echo "setup: ok"
